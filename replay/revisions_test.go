package statefulset

// Replay harness for the revision properties (C13, C10 revision clauses),
// injected with `go test -overlay`.  Run only after an obligation failed: a
// bounded search over small revision populations on the REAL ListRevisions /
// truncateHistory with the fake clientset.  Bounded; never counted as proof.

import (
	"encoding/json"
	"context"
	"fmt"
	"os"
	"sort"
	"testing"

	"github.com/pingcap/advanced-statefulset/client/apis/apps/v1/helper"
	kubeapps "k8s.io/api/apps/v1"
	v1 "k8s.io/api/core/v1"
	metav1 "k8s.io/apimachinery/pkg/apis/meta/v1"
	"k8s.io/apimachinery/pkg/runtime"
	"k8s.io/apimachinery/pkg/types"
	"k8s.io/client-go/kubernetes/fake"
	core "k8s.io/client-go/testing"
	"k8s.io/client-go/tools/record"

	apps "github.com/pingcap/advanced-statefulset/client/apis/apps/v1"
)

// rvHistory drives whole reconciles (the REAL UpdateStatefulSet) through a series of template edits while the rollout
// is held back (OnDelete, or pods that never become ready) or allowed to proceed, and after every successful
// reconcile counts the revisions in the API that nothing names: not the current revision the reconcile started
// from, not the newest revision (the one matching the template), not the label of any pod in the snapshot handed in.
type rvHistory struct {
	Kind     string `json:"kind"` // history
	Strategy string `json:"update_strategy"`
	Limit    int32  `json:"history_limit"`
	Healthy  bool   `json:"pods_become_ready"`
	Edits    int    `json:"template_edits"`
	Failure  string `json:"failure,omitempty"`
}

type rvWorld struct{ live map[string]*v1.Pod }

func (w *rvWorld) CreateStatefulPod(set *apps.StatefulSet, pod *v1.Pod) error {
	w.live[pod.Name] = pod.DeepCopy()
	return nil
}
func (w *rvWorld) UpdateStatefulPod(set *apps.StatefulSet, pod *v1.Pod) error { return nil }
func (w *rvWorld) DeleteStatefulPod(set *apps.StatefulSet, pod *v1.Pod) error {
	delete(w.live, pod.Name)
	return nil
}

type rvStatus struct{ last **apps.StatefulSetStatus }

func (c rvStatus) UpdateStatefulSetStatus(set *apps.StatefulSet, status *apps.StatefulSetStatus) error {
	cp := status.DeepCopy()
	*c.last = cp
	return nil
}

func rvHistoryJudge(c *rvHistory) string {
	set := newStatefulSet(3)
	set.Generation = 1
	set.Spec.UpdateStrategy.Type = apps.StatefulSetUpdateStrategyType(c.Strategy)
	lim := c.Limit
	set.Spec.RevisionHistoryLimit = &lim
	client := fake.NewSimpleClientset()
	world := &rvWorld{live: map[string]*v1.Pod{}}
	var last *apps.StatefulSetStatus
	ssc := &defaultStatefulSetControl{podControl: world, statusUpdater: rvStatus{&last}, csAppsV1: client.AppsV1(), recorder: &record.FakeRecorder{}}
	reconcile := func(progress bool) string {
		var snap []*v1.Pod
		for _, p := range world.live {
			snap = append(snap, p)
		}
		startCurrent := set.Status.CurrentRevision
		named := map[string]bool{}
		for _, p := range snap {
			named[p.Labels["controller-revision-hash"]] = true
		}
		if err := ssc.UpdateStatefulSet(set, snap); err != nil {
			return "" // not a successful reconcile: nothing is promised
		}
		if last != nil {
			set.Status = *last
		}
		list, err := client.AppsV1().ControllerRevisions(set.Namespace).List(context.TODO(), metav1.ListOptions{})
		if err != nil {
			return ""
		}
		var newest *kubeapps.ControllerRevision
		for i := range list.Items {
			if newest == nil || list.Items[i].Revision > newest.Revision {
				newest = &list.Items[i]
			}
		}
		unused := 0
		for i := range list.Items {
			r := &list.Items[i]
			if r.Name == startCurrent || r == newest || named[r.Name] || (startCurrent == "" && r == newest) {
				continue
			}
			unused++
		}
		if unused > int(c.Limit) {
			return fmt.Sprintf("a reconcile succeeded but %d unused revisions remain (of %d), limit is %d", unused, len(list.Items), c.Limit)
		}
		if progress {
			for _, p := range world.live {
				p.Status.Phase = v1.PodRunning
				p.Status.Conditions = []v1.PodCondition{{Type: v1.PodReady, Status: v1.ConditionTrue}}
			}
		}
		return ""
	}
	for i := 0; i < 8; i++ { // bring the set up
		if msg := reconcile(true); msg != "" {
			return "while the set comes up: " + msg
		}
	}
	for e := 1; e <= c.Edits; e++ {
		set.Spec.Template.Spec.Containers[0].Image = fmt.Sprintf("edit-%d", e)
		set.Generation++
		for k := 0; k < 3; k++ {
			if msg := reconcile(c.Healthy); msg != "" {
				return fmt.Sprintf("after template edit %d: %s", e, msg)
			}
		}
	}
	return ""
}

type rvSpec struct {
	Name     string `json:"name"`
	Owner    string `json:"owner"` // self | other | none | samename
	Selector bool   `json:"selector_labels"`
	Marker   bool   `json:"upgrade_marker"`
	Revision int64  `json:"revision"`
}

type rvCase struct {
	Revisions []rvSpec `json:"revisions"`
	Limit     int32    `json:"history_limit"`
	Current   string   `json:"current"`
	Update    string   `json:"update"`
	PodRevs   []string `json:"pod_revisions"`
	Failure   string   `json:"failure,omitempty"`
	Deleted   []string `json:"deleted,omitempty"`
}

func rvJudge(c *rvCase) string {
	set := newStatefulSet(3)
	set.UID = types.UID("self-uid")
	set.Spec.RevisionHistoryLimit = &c.Limit
	var objs []runtime.Object
	byName := map[string]*kubeapps.ControllerRevision{}
	tr := true
	for _, r := range c.Revisions {
		rev := &kubeapps.ControllerRevision{ObjectMeta: metav1.ObjectMeta{Name: r.Name, Namespace: set.Namespace, Labels: map[string]string{}}, Revision: r.Revision}
		if r.Selector {
			for k, v := range set.Spec.Selector.MatchLabels {
				rev.Labels[k] = v
			}
		}
		if r.Marker {
			rev.Labels[helper.UpgradeToAdvancedStatefulSetAnn] = set.Name
		}
		switch r.Owner {
		case "self":
			rev.OwnerReferences = []metav1.OwnerReference{{APIVersion: "apps.pingcap.com/v1", Kind: "StatefulSet", Name: set.Name, UID: set.UID, Controller: &tr}}
		case "other":
			rev.OwnerReferences = []metav1.OwnerReference{{APIVersion: "apps/v1", Kind: "DaemonSet", Name: "intruder", UID: "other-uid", Controller: &tr}}
		case "samename":
			// a different object with the set's kind and name (a deleted and re-created set, or the built-in twin)
			rev.OwnerReferences = []metav1.OwnerReference{{APIVersion: "apps.pingcap.com/v1", Kind: "StatefulSet", Name: set.Name, UID: "previous-uid", Controller: &tr}}
		}
		objs = append(objs, rev)
		byName[r.Name] = rev
	}
	client := fake.NewSimpleClientset(objs...)
	ssc := &defaultStatefulSetControl{csAppsV1: client.AppsV1()}
	revs, err := ssc.ListRevisions(set)
	if err != nil {
		return ""
	}
	seen := map[string]int{}
	for _, r := range revs {
		seen[r.Name]++
		if seen[r.Name] > 1 {
			return fmt.Sprintf("ListRevisions returns revision %s twice", r.Name)
		}
		if ref := metav1.GetControllerOf(r); ref != nil && ref.UID != set.UID {
			return fmt.Sprintf("ListRevisions returns revision %s controlled by %s/%s", r.Name, ref.Kind, ref.Name)
		}
	}
	if byName[c.Current] == nil || byName[c.Update] == nil {
		return ""
	}
	var pods []*v1.Pod
	for i, pr := range c.PodRevs {
		p := newStatefulSetPod(set, i)
		if len(pr) > 1 && pr[len(pr)-1] == '!' {
			// "rN!": the pod naming revision rN is terminating (it still exists and still names its revision)
			pr = pr[:len(pr)-1]
			now := metav1.Now()
			p.DeletionTimestamp = &now
		}
		setPodRevision(p, pr)
		pods = append(pods, p)
	}
	sort.SliceStable(revs, func(i, j int) bool { return revs[i].Revision < revs[j].Revision })
	client.ClearActions()
	terr := ssc.truncateHistory(set, pods, revs, byName[c.Current], byName[c.Update])
	live := map[string]bool{c.Current: true, c.Update: true}
	for _, pr := range c.PodRevs {
		if len(pr) > 1 && pr[len(pr)-1] == '!' {
			pr = pr[:len(pr)-1]
		}
		live[pr] = true
	}
	deleted := map[string]int{}
	for _, a := range client.Actions() {
		if da, ok := a.(core.DeleteAction); ok && a.GetVerb() == "delete" {
			deleted[da.GetName()]++
			c.Deleted = append(c.Deleted, da.GetName())
		}
	}
	unused := 0
	for _, r := range c.Revisions {
		if !live[r.Name] && r.Owner != "other" && r.Owner != "samename" && (r.Selector || r.Marker) {
			unused++
		}
	}
	for name, n := range deleted {
		r := byName[name]
		if n > 1 {
			return fmt.Sprintf("revision %s deleted %d times", name, n)
		}
		if live[name] {
			return fmt.Sprintf("live revision %s deleted", name)
		}
		if ref := metav1.GetControllerOf(r); ref != nil && ref.UID != set.UID {
			return fmt.Sprintf("revision %s of another controller deleted", name)
		}
	}
	if len(deleted) > 0 && unused <= int(c.Limit) {
		return fmt.Sprintf("%d revisions deleted although only %d unused revisions exist (limit %d)", len(deleted), unused, c.Limit)
	}
	if terr == nil && unused-len(deleted) > int(c.Limit) {
		return fmt.Sprintf("%d unused revisions remain after a successful trim (limit %d)", unused-len(deleted), c.Limit)
	}
	if terr != nil {
		return fmt.Sprintf("truncateHistory failed without any injected API failure: %v", terr)
	}
	return ""
}

func TestReplayRevisions(t *testing.T) {
	_ = os.Getenv("VERIF_PROPERTY")
	owners := []string{"self", "other", "none", "samename"}
	found := 0
	seenMsg := map[string]bool{}
	names := []string{"r1", "r2", "r3"}
	// enumerate populations of up to three revisions
	var gen func(i int, cur []rvSpec)
	var cases [][]rvSpec
	gen = func(i int, cur []rvSpec) {
		if i == len(names) {
			cases = append(cases, append([]rvSpec{}, cur...))
			return
		}
		gen(i+1, cur) // absent
		for _, o := range owners {
			for _, lab := range [][2]bool{{true, false}, {false, true}, {true, true}} {
				gen(i+1, append(cur, rvSpec{names[i], o, lab[0], lab[1], int64(i + 1)}))
			}
		}
	}
	gen(0, nil)
	for _, revs := range cases {
		for _, limit := range []int32{0, 1} {
			for _, cu := range [][2]string{{"r1", "r1"}, {"r1", "r2"}, {"r3", "r3"}} {
				for _, podRevs := range [][]string{nil, {"r2"}, {"r2!"}} {
					if found >= 3 {
						break
					}
					c := &rvCase{Revisions: revs, Limit: limit, Current: cu[0], Update: cu[1], PodRevs: podRevs}
					msg := rvJudge(c)
					if msg == "" || seenMsg[msg[:20]] {
						continue
					}
					seenMsg[msg[:20]] = true
					c.Failure = msg
					out, _ := json.Marshal(c)
					fmt.Printf("REPRODUCED %s\n", out)
					found++
				}
			}
		}
	}
	nh := 0
	for _, strat := range []string{"OnDelete", "RollingUpdate"} {
		for _, limit := range []int32{0, 1, 2} {
			for _, healthy := range []bool{false, true} {
				if found >= 3 {
					break
				}
				nh++
				c := &rvHistory{Kind: "history", Strategy: strat, Limit: limit, Healthy: healthy, Edits: 5}
				msg := rvHistoryJudge(c)
				if msg == "" || seenMsg["h:"+msg[:20]] {
					continue
				}
				seenMsg["h:"+msg[:20]] = true
				c.Failure = msg
				out, _ := json.Marshal(c)
				fmt.Printf("REPRODUCED %s\n", out)
				found++
			}
		}
	}
	if found == 0 {
		fmt.Printf("NOT-REPRODUCED bounded search: %d whole-reconcile histories (5 template edits x strategy x limit x pod health) and %d revision populations (owner self/other/none, selector labels and/or upgrade marker) x limits {0,1} x live sets\n", nh, len(cases))
	}
}
