package statefulset

// Replay harness for C16 (no lost wake-ups), injected with `go test -overlay`.
// Run only after a C16 obligation failed: a small directed search on the REAL
// pod event handlers with the fake controller, comparing the work queue with
// what the property demands.  Bounded; never counted as proof.

import (
	"encoding/json"
	"fmt"
	kubeapps "k8s.io/api/apps/v1"
	v1 "k8s.io/api/core/v1"
	"k8s.io/client-go/util/workqueue"
	"testing"
	"time"

	apps "github.com/pingcap/advanced-statefulset/client/apis/apps/v1"
	"github.com/pingcap/advanced-statefulset/client/apis/apps/v1/helper"
	pcfake "github.com/pingcap/advanced-statefulset/client/client/clientset/versioned/fake"
	pcinformers "github.com/pingcap/advanced-statefulset/client/client/informers/externalversions"
	pcappsinformers "github.com/pingcap/advanced-statefulset/client/client/informers/externalversions/apps/v1"
	"k8s.io/apimachinery/pkg/util/sets"
	kubeinformers "k8s.io/client-go/informers"
	kubefake "k8s.io/client-go/kubernetes/fake"
	metav1 "k8s.io/apimachinery/pkg/apis/meta/v1"
	"k8s.io/apimachinery/pkg/types"
	"k8s.io/client-go/tools/cache"
)

type hdCase struct {
	OtherSet string `json:"other_set"` // none | nonmatching | invalidselector | matching
	Owner    string `json:"pod_owner"` // none | set | stale-uid | other-kind
	Event    string `json:"event"`     // add | update | update-samerv | update-from-stale-owner | delete | tombstone | fail-16-times
	Failure  string `json:"failure,omitempty"`
	Queue    int    `json:"queue_len"`
}

type failingControl struct{}

func (failingControl) UpdateStatefulSet(set *apps.StatefulSet, pods []*v1.Pod) error {
	return fmt.Errorf("injected reconcile failure")
}
func (failingControl) ListRevisions(set *apps.StatefulSet) ([]*kubeapps.ControllerRevision, error) {
	return nil, nil
}
func (failingControl) AdoptOrphanRevisions(set *apps.StatefulSet, revisions []*kubeapps.ControllerRevision) error {
	return nil
}

func hdJudge(c *hdCase) string {
	set := newStatefulSet(3)
	set.UID = types.UID("self")
	ssc, spc := newFakeStatefulSetController(set)
	ssc.setListerSynced = alwaysReady
	var other *apps.StatefulSet
	switch c.OtherSet {
	case "nonmatching":
		other = newStatefulSet(1)
		other.Name = "bar"
		other.Spec.Selector = &metav1.LabelSelector{MatchLabels: map[string]string{"nope": "nope"}}
	case "invalidselector":
		other = newStatefulSet(1)
		other.Name = "bar"
		other.Spec.Selector = &metav1.LabelSelector{MatchExpressions: []metav1.LabelSelectorRequirement{{Key: "x", Operator: metav1.LabelSelectorOpIn}}}
	case "matching":
		other = newStatefulSet(1)
		other.Name = "bar"
	}
	spc.setsIndexer.Add(set)
	if other != nil {
		other.UID = types.UID("other")
		spc.setsIndexer.Add(other)
	}
	pod := newStatefulSetPod(set, 0)
	pod.ResourceVersion = "1"
	tr := true
	switch c.Owner {
	case "none":
		pod.OwnerReferences = nil
	case "stale-uid":
		pod.OwnerReferences = []metav1.OwnerReference{{APIVersion: "apps.pingcap.com/v1", Kind: "StatefulSet", Name: set.Name, UID: "gone", Controller: &tr}}
	case "other-kind":
		pod.OwnerReferences = []metav1.OwnerReference{{APIVersion: "apps/v1", Kind: "ReplicaSet", Name: set.Name, UID: set.UID, Controller: &tr}}
	}
	want := map[string]bool{}
	key := func(s *apps.StatefulSet) string { return s.Namespace + "/" + s.Name }
	controlled := c.Owner == "set"
	switch c.Event {
	case "add":
		ssc.addPod(pod)
		if controlled {
			want[key(set)] = true
		} else if c.Owner == "none" {
			want[key(set)] = true
			if c.OtherSet == "matching" {
				want[key(other)] = true
			}
		}
	case "update", "update-samerv":
		old := pod.DeepCopy()
		cur := pod.DeepCopy()
		if c.Event == "update" {
			cur.ResourceVersion = "2"
			cur.Labels["changed"] = "yes"
		}
		ssc.updatePod(old, cur)
		if c.Event == "update" {
			if controlled {
				want[key(set)] = true
			} else if c.Owner == "none" {
				want[key(set)] = true
				if c.OtherSet == "matching" {
					want[key(other)] = true
				}
			}
		}
	case "update-from-stale-owner":
		// the old controller reference does not resolve to any live set; the new state must still be handled
		old := pod.DeepCopy()
		old.OwnerReferences = []metav1.OwnerReference{{APIVersion: "apps/v1", Kind: "ReplicaSet", Name: "gone", UID: "gone", Controller: &tr}}
		cur := pod.DeepCopy()
		cur.ResourceVersion = "2"
		ssc.updatePod(old, cur)
		if controlled {
			want[key(set)] = true
		} else if c.Owner == "none" {
			want[key(set)] = true
			if c.OtherSet == "matching" {
				want[key(other)] = true
			}
		}
	case "fail-16-times":
		// a reconcile that keeps failing must be put back every time (with backoff), never dropped
		ssc.control = failingControl{}
		ssc.queue = workqueue.NewNamedRateLimitingQueue(workqueue.NewItemExponentialFailureRateLimiter(time.Microsecond, 200*time.Microsecond), "replay")
		spc.podsIndexer.Add(pod)
		ssc.queue.Add(key(set))
		for i := 0; i < 40; i++ {
			deadline := time.Now().Add(2 * time.Second)
			for ssc.queue.Len() == 0 && time.Now().Before(deadline) {
				time.Sleep(200 * time.Microsecond)
			}
			if ssc.queue.Len() == 0 {
				return fmt.Sprintf("after %d failed reconciles the set is no longer in the queue: the wake-up is lost", i)
			}
			ssc.processNextWorkItem()
			if ssc.queue.NumRequeues(key(set)) != i+1 {
				return fmt.Sprintf("after %d failed reconciles NumRequeues=%d: the failing set was not put back with backoff", i+1, ssc.queue.NumRequeues(key(set)))
			}
		}
		return ""
	case "delete":
		ssc.deletePod(pod)
		if controlled {
			want[key(set)] = true
		}
	case "tombstone":
		ssc.deletePod(cache.DeletedFinalStateUnknown{Key: "default/" + pod.Name, Obj: pod})
		if controlled {
			want[key(set)] = true
		}
	}
	got := map[string]bool{}
	for ssc.queue.Len() > 0 {
		k, _ := ssc.queue.Get()
		got[k.(string)] = true
		ssc.queue.Done(k)
	}
	c.Queue = len(got)
	for k := range want {
		if !got[k] {
			return fmt.Sprintf("set %s should have been enqueued and was not", k)
		}
	}
	for k := range got {
		if !want[k] {
			return fmt.Sprintf("set %s was enqueued although the event does not concern it", k)
		}
	}
	return ""
}

// The handlers the controller registers on the StatefulSet informer are function literals inside
// NewStatefulSetController; to call the REAL ones the harness hands the constructor an informer that records the
// handler it is given.
type hdCapturingInformer struct {
	cache.SharedIndexInformer
	handlers *[]cache.ResourceEventHandler
}

func (i hdCapturingInformer) AddEventHandler(h cache.ResourceEventHandler) (cache.ResourceEventHandlerRegistration, error) {
	*i.handlers = append(*i.handlers, h)
	return i.SharedIndexInformer.AddEventHandler(h)
}

type hdSetInformer struct {
	pcappsinformers.StatefulSetInformer
	handlers *[]cache.ResourceEventHandler
}

func (i hdSetInformer) Informer() cache.SharedIndexInformer {
	return hdCapturingInformer{i.StatefulSetInformer.Informer(), i.handlers}
}

type hdSetCase struct {
	Kind    string `json:"set_event"` // add | delete | update-spec | update-status | update-delete-slots | update-label | update-pause | resync
	Failure string `json:"failure,omitempty"`
}

func hdSetJudge(c *hdSetCase) string {
	set := newStatefulSet(3)
	set.UID = types.UID("self")
	set.Generation = 4
	set.ResourceVersion = "10"
	client := pcfake.NewSimpleClientset(set)
	kubeClient := kubefake.NewSimpleClientset()
	f := pcinformers.NewSharedInformerFactory(client, 0)
	kf := kubeinformers.NewSharedInformerFactory(kubeClient, 0)
	var handlers []cache.ResourceEventHandler
	ssc := NewStatefulSetController(kf.Core().V1().Pods(), hdSetInformer{f.Apps().V1().StatefulSets(), &handlers},
		kf.Core().V1().PersistentVolumeClaims(), kf.Apps().V1().ControllerRevisions(), kubeClient, client)
	if len(handlers) == 0 {
		return "the controller registered no handler on the StatefulSet informer"
	}
	cur := set.DeepCopy()
	cur.ResourceVersion = "11"
	want := true
	for _, h := range handlers {
		switch c.Kind {
		case "add":
			h.OnAdd(cur, false)
		case "delete":
			h.OnDelete(cur)
		case "update-spec":
			r := int32(5)
			cur.Spec.Replicas = &r
			cur.Generation++
			h.OnUpdate(set, cur)
		case "update-status":
			cur.Status.ReadyReplicas = 1
			h.OnUpdate(set, cur)
		case "update-delete-slots":
			helper.SetDeleteSlots(cur, sets.NewInt32(1))
			h.OnUpdate(set, cur)
		case "update-label":
			cur.Labels = map[string]string{"team": "x"}
			h.OnUpdate(set, cur)
		case "update-pause":
			helper.SetPausedReconcile(cur, true)
			h.OnUpdate(set, cur)
		case "resync":
			// the informer's periodic resync: the same object twice.  Not a change: the property demands nothing,
			// the call only must not panic
			want = false
			h.OnUpdate(set, set)
		}
	}
	n := 0
	for ssc.queue.Len() > 0 {
		k, _ := ssc.queue.Get()
		if k.(string) == set.Namespace+"/"+set.Name {
			n++
		}
		ssc.queue.Done(k)
	}
	if want && n == 0 {
		return fmt.Sprintf("set event %q did not enqueue the set", c.Kind)
	}
	return ""
}

func TestReplayHandlers(t *testing.T) {
	found := 0
	seen := map[string]bool{}
	for _, k := range []string{"add", "delete", "update-spec", "update-status", "update-delete-slots", "update-label", "update-pause", "resync"} {
		c := &hdSetCase{Kind: k}
		msg := hdSetJudge(c)
		if msg == "" || seen[msg] || found >= 3 {
			continue
		}
		seen[msg] = true
		c.Failure = msg
		out, _ := json.Marshal(c)
		fmt.Printf("REPRODUCED %s\n", out)
		found++
	}
	for _, other := range []string{"none", "nonmatching", "invalidselector", "matching"} {
		for _, owner := range []string{"none", "set", "stale-uid", "other-kind"} {
			for _, ev := range []string{"add", "update", "update-samerv", "update-from-stale-owner", "delete", "tombstone", "fail-16-times"} {
				if found >= 3 {
					break
				}
				c := &hdCase{OtherSet: other, Owner: owner, Event: ev}
				msg := hdJudge(c)
				if msg == "" || seen[msg] {
					continue
				}
				seen[msg] = true
				c.Failure = msg
				out, _ := json.Marshal(c)
				fmt.Printf("REPRODUCED %s\n", out)
				found++
			}
		}
	}
	if found == 0 {
		fmt.Println("NOT-REPRODUCED bounded search: 8 kinds of set event through the handlers the controller registers; 4 set populations x 4 owner shapes x 7 event shapes on addPod/updatePod/deletePod")
	}
}
