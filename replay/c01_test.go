package helper

// Replay harness for property C01, injected into package helper with
// `go test -overlay` (nothing is written into the repository).  It is run
// only after a C01 obligation has failed: it searches a bounded input space
// on the REAL functions for an input that violates the property statement
// itself and prints it.  The search is bounded and is never counted as proof.

import (
	"encoding/json"
	"fmt"
	"math"
	"sort"
	"testing"

	metav1 "k8s.io/apimachinery/pkg/apis/meta/v1"
	"k8s.io/apimachinery/pkg/util/sets"
)

func c01Expected(r int32, slots sets.Int32) []int32 {
	out := []int32{}
	for x := int32(0); int32(len(out)) < r; x++ {
		if !slots.Has(x) {
			out = append(out, x)
		}
	}
	return out
}

func c01Check(r int32, slots sets.Int32) string {
	want := c01Expected(r, slots)
	got := GetPodOrdinalsFromReplicasAndDeleteSlots(r, sets.NewInt32(slots.List()...)).List()
	if fmt.Sprint(got) != fmt.Sprint(want) {
		return fmt.Sprintf("GetPodOrdinalsFromReplicasAndDeleteSlots=%v want %v", got, want)
	}
	b, e := GetMaxReplicaCountAndDeleteSlots(r, sets.NewInt32(slots.List()...))
	for _, x := range e.List() {
		if !slots.Has(x) || x < 0 || x >= b {
			return fmt.Sprintf("effective slot %d not a slot inside [0,%d)", x, b)
		}
	}
	for _, x := range slots.List() {
		if x >= 0 && x < b && !e.Has(x) {
			return fmt.Sprintf("slot %d inside [0,%d) missing from effective slots %v", x, b, e.List())
		}
	}
	if int(b) != int(r)+e.Len() {
		return fmt.Sprintf("bound %d != replicas %d + %d effective slots", b, r, e.Len())
	}
	set := &metav1.ObjectMeta{}
	if slots.Len() > 0 {
		raw, _ := json.Marshal(slots.List())
		set.Annotations = map[string]string{DeleteSlotsAnn: string(raw)}
	}
	max, min := GetMaxPodOrdinal(r, set), GetMinPodOrdinal(r, set)
	wmax, wmin := int32(-1), int32(math.MaxInt32)
	if len(want) > 0 {
		wmin, wmax = want[0], want[len(want)-1]
	}
	if max != wmax || min != wmin {
		return fmt.Sprintf("max/min ordinal = %d/%d want %d/%d", max, min, wmax, wmin)
	}
	return ""
}

func TestReplayC01(t *testing.T) {
	universe := []int32{-2, -1, 0, 1, 2, 3, 4, 6, math.MaxInt32, math.MinInt32}
	found := 0
	for r := int32(0); r <= 4 && found < 3; r++ {
		for mask := 0; mask < 1<<len(universe) && found < 3; mask++ {
			slots := sets.NewInt32()
			for i, x := range universe {
				if mask&(1<<i) != 0 {
					slots.Insert(x)
				}
			}
			if msg := c01Check(r, slots); msg != "" {
				l := slots.List()
				sort.Slice(l, func(i, j int) bool { return l[i] < l[j] })
				in, _ := json.Marshal(map[string]interface{}{"replicas": r, "delete_slots": l, "failure": msg})
				fmt.Printf("REPRODUCED %s\n", in)
				found++
			}
		}
	}
	// malformed / absent annotation values must behave like the empty slot set
	for _, v := range []string{"", "[", "{}", "[1,\"a\"]", "null", "[1.5]", "[99999999999]"} {
		set := &metav1.ObjectMeta{Annotations: map[string]string{DeleteSlotsAnn: v}}
		var probe []int32
		wantEmpty := json.Unmarshal([]byte(v), &probe) != nil
		if wantEmpty && GetDeleteSlots(set).Len() != 0 {
			in, _ := json.Marshal(map[string]interface{}{"annotation": v, "failure": "malformed annotation yields slots"})
			fmt.Printf("REPRODUCED %s\n", in)
			found++
		}
	}
	if found == 0 {
		fmt.Println("NOT-REPRODUCED bounded search: replicas 0..4, slot subsets of {-2,-1,0,1,2,3,4,6,MaxInt32,MinInt32}")
	}
}
