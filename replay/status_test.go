package statefulset

// Replay harness for the status path (C12 "status tells the truth", C09 for the retried status
// write), injected with `go test -overlay`.  Run only after an obligation failed: a bounded search
// on the REAL completeRollingUpdate, inconsistentStatus and realStatefulSetStatusUpdater (with a
// fake API that answers the first status write with a Conflict and keeps its own stored copy).
// Bounded; never counted as proof.

import (
	"encoding/json"
	"errors"
	"fmt"
	"testing"

	apps "github.com/pingcap/advanced-statefulset/client/apis/apps/v1"
	"github.com/pingcap/advanced-statefulset/client/client/clientset/versioned/fake"
	appslisters "github.com/pingcap/advanced-statefulset/client/client/listers/apps/v1"
	apierrors "k8s.io/apimachinery/pkg/api/errors"
	"k8s.io/apimachinery/pkg/runtime"
	core "k8s.io/client-go/testing"
	"k8s.io/client-go/tools/cache"
)

type stCase struct {
	Kind     string `json:"kind"` // promote | conflict
	Strategy string `json:"update_strategy,omitempty"`
	Replicas int32  `json:"status_replicas"`
	Ready    int32  `json:"status_ready"`
	Updated  int32  `json:"status_updated"`
	Current  int32  `json:"status_current"`
	Spec     int32  `json:"spec_replicas"`
	Failure  string `json:"failure,omitempty"`
}

func stJudge(c *stCase) string {
	switch c.Kind {
	case "promote":
		set := newStatefulSet(int(c.Spec))
		set.Spec.UpdateStrategy.Type = apps.StatefulSetUpdateStrategyType(c.Strategy)
		st := &apps.StatefulSetStatus{Replicas: c.Replicas, ReadyReplicas: c.Ready, UpdatedReplicas: c.Updated, CurrentReplicas: c.Current, CurrentRevision: "cur", UpdateRevision: "upd"}
		completeRollingUpdate(set, st)
		want := c.Strategy == "RollingUpdate" && c.Updated == c.Replicas && c.Ready == c.Replicas
		if (st.CurrentRevision == "upd") != want {
			return fmt.Sprintf("currentRevision promoted=%v although every observed pod updated and ready=%v", st.CurrentRevision == "upd", want)
		}
		if want && st.CurrentReplicas != c.Updated {
			return "promotion did not carry the updated count over to currentReplicas"
		}
		if !want && st.CurrentReplicas != c.Current {
			return "currentReplicas changed without a promotion"
		}
	case "conflict":
		set := newStatefulSet(3)
		set.Generation = 2
		set.ResourceVersion = "1"
		stored := set.DeepCopy() // what the API server holds
		stored.ResourceVersion = "2"
		cached := stored.DeepCopy() // what the informer cache holds (a different object from the caller's)
		fakeClient := &fake.Clientset{}
		indexer := cache.NewIndexer(cache.MetaNamespaceKeyFunc, cache.Indexers{cache.NamespaceIndex: cache.MetaNamespaceIndexFunc})
		indexer.Add(cached)
		updater := NewRealStatefulSetStatusUpdater(fakeClient, appslisters.NewStatefulSetLister(indexer))
		fakeClient.AddReactor("update", "statefulsets", func(action core.Action) (bool, runtime.Object, error) {
			obj := action.(core.UpdateAction).GetObject().(*apps.StatefulSet)
			if obj.ResourceVersion != stored.ResourceVersion {
				return true, nil, apierrors.NewConflict(action.GetResource().GroupResource(), set.Name, errors.New("stale"))
			}
			stored.Status = obj.Status
			return true, stored.DeepCopy(), nil
		})
		status := apps.StatefulSetStatus{ObservedGeneration: 2, Replicas: c.Replicas, ReadyReplicas: c.Ready, UpdatedReplicas: c.Updated, CurrentReplicas: c.Current, CurrentRevision: "cur", UpdateRevision: "upd"}
		err := updater.UpdateStatefulSetStatus(set, &status)
		if err == nil && (stored.Status.Replicas != status.Replicas || stored.Status.ReadyReplicas != status.ReadyReplicas || stored.Status.ObservedGeneration != status.ObservedGeneration || stored.Status.UpdateRevision != status.UpdateRevision) {
			return fmt.Sprintf("the status write was retried after a conflict and reported success, but the API holds replicas=%d ready=%d observedGeneration=%d, not the computed status", stored.Status.Replicas, stored.Status.ReadyReplicas, stored.Status.ObservedGeneration)
		}
	}
	return ""
}

func TestReplayStatus(t *testing.T) {
	found, tried := 0, 0
	seen := map[string]bool{}
	try := func(c *stCase) {
		if found >= 3 {
			return
		}
		tried++
		msg := stJudge(c)
		key := msg
		if len(key) > 30 {
			key = key[:30]
		}
		if msg == "" || seen[key] {
			return
		}
		seen[key] = true
		c.Failure = msg
		out, _ := json.Marshal(c)
		fmt.Printf("REPRODUCED %s\n", out)
		found++
	}
	for _, strat := range []string{"RollingUpdate", "OnDelete"} {
		for _, spec := range []int32{0, 3, 5} {
			for repl := int32(0); repl <= 5; repl++ {
				for ready := int32(0); ready <= repl; ready++ {
					for upd := int32(0); upd <= repl; upd++ {
						try(&stCase{Kind: "promote", Strategy: strat, Spec: spec, Replicas: repl, Ready: ready, Updated: upd, Current: repl - upd})
					}
				}
			}
		}
	}
	for repl := int32(0); repl <= 3; repl++ {
		try(&stCase{Kind: "conflict", Replicas: repl, Ready: repl, Updated: repl, Current: 0})
	}
	if found == 0 {
		fmt.Printf("NOT-REPRODUCED bounded search: %d cases (completeRollingUpdate over all small statuses x strategy x spec.replicas; status write through a conflict)\n", tried)
	}
}
