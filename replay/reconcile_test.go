package statefulset

// Replay harness for the properties anchored in updateStatefulSet (C03, C04,
// C05, C07, C12, C14, C15), injected into package statefulset with
// `go test -overlay` (nothing is written into the repository).  It runs only
// after an obligation of one of these properties has failed: it searches a
// bounded, seeded space of (set, snapshot) inputs on the REAL updateStatefulSet
// with a recording pod control for an input whose recorded behaviour violates
// the property statement itself, and prints it.  Bounded; never counted as proof.

import (
	"encoding/json"
	"fmt"
	"math"
	"math/rand"
	"os"
	"sort"
	"strconv"
	"strings"
	"testing"

	apps "github.com/pingcap/advanced-statefulset/client/apis/apps/v1"
	"github.com/pingcap/advanced-statefulset/client/apis/apps/v1/helper"
	kubeapps "k8s.io/api/apps/v1"
	v1 "k8s.io/api/core/v1"
	metav1 "k8s.io/apimachinery/pkg/apis/meta/v1"
	apierrors "k8s.io/apimachinery/pkg/api/errors"
	"k8s.io/apimachinery/pkg/runtime/schema"
	"k8s.io/apimachinery/pkg/util/sets"
	"k8s.io/client-go/tools/record"
)

type rcCall struct {
	Verb string
	Pod  *v1.Pod
	Ord  int
}

type rcControl struct {
	calls  []rcCall
	failAt int // 1-based index of the call that fails; 0 = none
	kind   string
}

func (c *rcControl) do(verb string, pod *v1.Pod) error {
	c.calls = append(c.calls, rcCall{verb, pod, rcOrd(pod)})
	if c.failAt == len(c.calls) {
		gr := schema.GroupResource{Resource: "pods"}
		switch c.kind {
		case "exists":
			return apierrors.NewAlreadyExists(gr, pod.Name)
		case "notfound":
			return apierrors.NewNotFound(gr, pod.Name)
		case "conflict":
			return apierrors.NewConflict(gr, pod.Name, fmt.Errorf("injected"))
		}
		return fmt.Errorf("injected failure")
	}
	return nil
}
func (c *rcControl) CreateStatefulPod(set *apps.StatefulSet, pod *v1.Pod) error {
	return c.do("create", pod)
}
func (c *rcControl) UpdateStatefulPod(set *apps.StatefulSet, pod *v1.Pod) error {
	return c.do("update", pod)
}
func (c *rcControl) DeleteStatefulPod(set *apps.StatefulSet, pod *v1.Pod) error {
	return c.do("delete", pod)
}

type rcPod struct {
	Ord   int    `json:"ordinal"`
	State string `json:"state"` // healthy pending failed succeeded terminating unready unknown failed-terminating succeeded-terminating
	Rev   string `json:"revision"`
}

type rcCase struct {
	Replicas        int32    `json:"replicas"`
	Slots           []int32  `json:"delete_slots"`
	Policy          string   `json:"pod_management_policy"`
	Strategy        string   `json:"update_strategy"`
	Partition       *int32   `json:"partition"`
	HasRU           bool     `json:"rolling_update_block"`
	Deleting        bool     `json:"deleting"`
	RolloutInStatus bool     `json:"status_revisions_differ"`
	Pods            []rcPod  `json:"pods"`
	FailCall        int      `json:"failing_pod_call,omitempty"` // 1-based index of the pod create/update/delete that fails; 0 = none
	FailKind        string   `json:"failure_kind,omitempty"`     // generic | exists | notfound | conflict
	Failure         string   `json:"failure,omitempty"`
	Calls           []string `json:"calls,omitempty"`
}

// The oracle's own pod predicates (independent of the functions under test, so that a change to
// getOrdinal, isHealthy, ... cannot shift the oracle with it).
func rcOrd(p *v1.Pod) int {
	k := strings.LastIndex(p.Name, "-")
	if k < 0 {
		return -1
	}
	n, err := strconv.ParseInt(p.Name[k+1:], 10, 32)
	if err != nil || n < 0 {
		return -1
	}
	return int(n)
}
func rcReady(p *v1.Pod) bool {
	if p.Status.Phase != v1.PodRunning {
		return false
	}
	for _, c := range p.Status.Conditions {
		if c.Type == v1.PodReady {
			return c.Status == v1.ConditionTrue
		}
	}
	return false
}
func rcTerminating(p *v1.Pod) bool { return p.DeletionTimestamp != nil }
func rcHealthy(p *v1.Pod) bool     { return rcReady(p) && !rcTerminating(p) }
func rcFailed(p *v1.Pod) bool      { return p.Status.Phase == v1.PodFailed }
func rcSucceeded(p *v1.Pod) bool   { return p.Status.Phase == v1.PodSucceeded }
func rcCreated(p *v1.Pod) bool     { return p.Status.Phase != "" }
func rcRev(p *v1.Pod) string       { return p.Labels["controller-revision-hash"] }

func rcDesired(r int32, slots sets.Int32) map[int]bool {
	out := map[int]bool{}
	for x := 0; int32(len(out)) < r; x++ {
		if !slots.Has(int32(x)) {
			out[x] = true
		}
	}
	return out
}

func rcRun(c *rcCase) (status *apps.StatefulSetStatus, ctl *rcControl, snapshot []*v1.Pod, cur, upd *kubeapps.ControllerRevision, err error, panicked interface{}) {
	set := newStatefulSet(int(c.Replicas))
	set.Spec.PodManagementPolicy = apps.PodManagementPolicyType(c.Policy)
	set.Spec.UpdateStrategy = apps.StatefulSetUpdateStrategy{Type: apps.StatefulSetUpdateStrategyType(c.Strategy)}
	if c.HasRU {
		set.Spec.UpdateStrategy.RollingUpdate = &apps.RollingUpdateStatefulSetStrategy{Partition: c.Partition}
	}
	if len(c.Slots) > 0 {
		helper.SetDeleteSlots(set, sets.NewInt32(c.Slots...))
	}
	if c.Deleting {
		now := metav1.Now()
		set.DeletionTimestamp = &now
	}
	cur = newRevisionOrDie(set, 1)
	if c.RolloutInStatus {
		set.Status.CurrentRevision = "rev-a"
		set.Status.UpdateRevision = "rev-b"
	}
	set2 := set.DeepCopy()
	set2.Spec.Template.Spec.Containers[0].Image = "changed"
	upd = newRevisionOrDie(set2, 2)
	old := set.DeepCopy()
	old.Spec.Template.Spec.Containers[0].Image = "older"
	third := newRevisionOrDie(old, 3)
	revName := map[string]string{"current": cur.Name, "update": upd.Name, "third": third.Name, "none": ""}
	for _, p := range c.Pods {
		pod := newStatefulSetPod(set, p.Ord)
		if rn, ok := revName[p.Rev]; ok && rn != "" {
			setPodRevision(pod, rn)
		}
		pod.Status.Phase = v1.PodRunning
		ready := v1.PodCondition{Type: v1.PodReady, Status: v1.ConditionTrue}
		switch p.State {
		case "healthy":
			pod.Status.Conditions = []v1.PodCondition{ready}
		case "unready":
		case "pending":
			pod.Status.Phase = v1.PodPending
		case "failed":
			pod.Status.Phase = v1.PodFailed
		case "succeeded":
			pod.Status.Phase = v1.PodSucceeded
		case "terminating":
			pod.Status.Conditions = []v1.PodCondition{ready}
			now := metav1.Now()
			pod.DeletionTimestamp = &now
		case "unknown":
			pod.Status.Phase = v1.PodUnknown
		case "failed-terminating", "succeeded-terminating":
			// a finished pod whose delete has been issued and which is still there
			pod.Status.Phase = v1.PodFailed
			if p.State == "succeeded-terminating" {
				pod.Status.Phase = v1.PodSucceeded
			}
			now := metav1.Now()
			pod.DeletionTimestamp = &now
		}
		snapshot = append(snapshot, pod)
	}
	ctl = &rcControl{failAt: c.FailCall, kind: c.FailKind}
	ssc := &defaultStatefulSetControl{podControl: ctl, recorder: record.NewFakeRecorder(1000)}
	func() {
		defer func() {
			if r := recover(); r != nil {
				panicked = r
			}
		}()
		status, err = ssc.updateStatefulSet(set2, cur, upd, 0, snapshot)
	}()
	return
}

func rcJudge(prop string, c *rcCase) string {
	status, ctl, snap, cur, upd, err, panicked := rcRun(c)
	if panicked != nil {
		if prop == "C15" {
			return fmt.Sprintf("panic: %v", panicked)
		}
		return ""
	}
	if c.FailCall > 0 {
		// only C09 injects failures: a pod write that failed must make the reconcile report failure
		if len(ctl.calls) >= c.FailCall {
			if err == nil {
				f := ctl.calls[c.FailCall-1]
				return fmt.Sprintf("pod %s of %s failed (%s) but the reconcile reported success", f.Verb, f.Pod.Name, c.FailKind)
			}
		}
		return ""
	}
	slots := sets.NewInt32(c.Slots...)
	desired := rcDesired(c.Replicas, slots)
	inSnap := map[*v1.Pod]bool{}
	snapAt := map[int]*v1.Pod{}
	for _, p := range snap {
		inSnap[p] = true
		snapAt[rcOrd(p)] = p
	}
	condemned := func(p *v1.Pod) bool { return inSnap[p] && rcOrd(p) >= 0 && !desired[rcOrd(p)] }
	replaceable := func(p *v1.Pod) bool { return inSnap[p] && desired[rcOrd(p)] && (rcFailed(p) || rcSucceeded(p)) }
	partition := 0
	if c.HasRU && c.Partition != nil {
		partition = int(*c.Partition)
	}
	monotonic := c.Policy != string(apps.ParallelPodManagement)
	created := map[int]bool{}
	replaceDue := map[int]bool{}
	var ords []int
	updDeletes := 0
	for i, call := range ctl.calls {
		if call.Verb == "update" {
			continue
		}
		ords = append(ords, call.Ord)
		switch call.Verb {
		case "delete":
			p := call.Pod
			outdated := c.Strategy == "RollingUpdate" && call.Ord >= partition && rcRev(p) != upd.Name
			switch prop {
			case "C03":
				if !condemned(p) && !replaceable(p) && !outdated {
					return fmt.Sprintf("call %d deletes pod %s which is neither outside the desired set, nor failed/succeeded, nor outdated at or above the partition", i, p.Name)
				}
			case "C11":
				if c.Deleting {
					return fmt.Sprintf("call %d deletes pod %s while the set is being deleted", i, p.Name)
				}
			case "C05":
				if monotonic && condemned(p) {
					for o := range desired {
						if q := snapAt[o]; q == nil || !rcReady(q) {
							return fmt.Sprintf("scale-in delete of %s while desired ordinal %d is not Running and Ready", p.Name, o)
						}
					}
					for _, q := range snap {
						if condemned(q) && rcOrd(q) > call.Ord {
							return fmt.Sprintf("scale-in delete of %s while condemned pod %s with a higher ordinal is still present", p.Name, q.Name)
						}
					}
				}
				if monotonic && !condemned(p) && !replaceable(p) {
					for _, q := range snap {
						if condemned(q) {
							return fmt.Sprintf("update delete of %s while condemned pod %s is still present", p.Name, q.Name)
						}
					}
					for o := range desired {
						if q := snapAt[o]; o != call.Ord && (q == nil || !rcHealthy(q)) {
							return fmt.Sprintf("update delete of %s while desired ordinal %d is not healthy", p.Name, o)
						}
					}
				}
			case "C07":
				if !condemned(p) && !replaceable(p) {
					if c.Strategy == "OnDelete" {
						return fmt.Sprintf("pod %s deleted for its revision under OnDelete", p.Name)
					}
					if call.Ord < partition {
						return fmt.Sprintf("pod %s below partition %d deleted for its revision", p.Name, partition)
					}
					for o := range desired {
						if o > call.Ord {
							if q := snapAt[o]; q == nil || rcRev(q) != upd.Name || !rcHealthy(q) {
								return fmt.Sprintf("pod %s deleted for update while higher desired ordinal %d is not updated and healthy", p.Name, o)
							}
						}
					}
				}
			}
			if !condemned(p) && !replaceable(p) {
				updDeletes++
			}
			if replaceable(p) {
				replaceDue[call.Ord] = true
			}
		case "create":
			p := call.Pod
			switch prop {
			case "C04", "C01":
				if c.Deleting {
					return fmt.Sprintf("create of %s for a set that is being deleted", p.Name)
				}
				if !desired[call.Ord] {
					return fmt.Sprintf("create at ordinal %d which is not in the desired set", call.Ord)
				}
				if snapAt[call.Ord] != nil && !replaceDue[call.Ord] {
					return fmt.Sprintf("create at occupied ordinal %d", call.Ord)
				}
				if created[call.Ord] {
					return fmt.Sprintf("create at ordinal %d twice", call.Ord)
				}
			case "C05":
				if monotonic {
					for o := range desired {
						if o < call.Ord {
							if q := snapAt[o]; q == nil || !rcHealthy(q) {
								return fmt.Sprintf("create at ordinal %d while lower desired ordinal %d is not healthy", call.Ord, o)
							}
						}
					}
				}
			case "C07":
				if c.HasRU && c.Partition != nil && c.Strategy == "RollingUpdate" {
					want := upd.Name
					if call.Ord < partition {
						want = cur.Name
					}
					if rcRev(p) != want {
						return fmt.Sprintf("pod created at ordinal %d (partition %d) carries revision %q, want %q", call.Ord, partition, rcRev(p), want)
					}
				}
			}
			created[call.Ord] = true
		}
	}
	switch prop {
	case "C05":
		if monotonic {
			seen := map[int]bool{}
			for _, o := range ords {
				seen[o] = true
			}
			if len(seen) > 1 {
				return fmt.Sprintf("OrderedReady reconcile created/deleted at %d ordinals", len(seen))
			}
		}
	case "C03":
		if err == nil {
			for o := range replaceDue {
				if !created[o] {
					return fmt.Sprintf("failed/succeeded pod at ordinal %d deleted but not replaced", o)
				}
			}
		}
	case "C07", "C14":
		if updDeletes > 1 {
			return fmt.Sprintf("%d pods deleted for update in one reconcile", updDeletes)
		}
	}
	if prop == "C14" && err == nil && !monotonic && !c.Deleting {
		for o := range desired {
			if snapAt[o] == nil && !created[o] {
				return fmt.Sprintf("Parallel: vacant desired ordinal %d not created", o)
			}
		}
		for _, q := range snap {
			if condemned(q) && !rcTerminating(q) {
				found := false
				for _, call := range ctl.calls {
					if call.Verb == "delete" && call.Pod == q {
						found = true
					}
				}
				if !found {
					return fmt.Sprintf("Parallel: condemned pod %s not deleted", q.Name)
				}
			}
		}
	}
	if prop == "C11" && c.Deleting && len(ords) > 0 {
		return "pod create/delete issued for a set that is being deleted"
	}
	if prop == "C12" && err == nil && status != nil {
		if status.ReadyReplicas < 0 || status.ReadyReplicas > status.Replicas || status.CurrentReplicas < 0 || status.CurrentReplicas > status.Replicas ||
			status.UpdatedReplicas < 0 || status.UpdatedReplicas > status.Replicas {
			return fmt.Sprintf("status out of range: replicas=%d ready=%d current=%d updated=%d", status.Replicas, status.ReadyReplicas, status.CurrentReplicas, status.UpdatedReplicas)
		}
		if len(ords) == 0 {
			var n, ready, curN, updN int32
			for _, p := range snap {
				n++
				if rcReady(p) {
					ready++
				}
				if rcCreated(p) && !rcTerminating(p) {
					if rcRev(p) == cur.Name {
						curN++
					}
					if rcRev(p) == upd.Name {
						updN++
					}
				}
			}
			if status.Replicas != n || status.ReadyReplicas != ready || status.CurrentReplicas != curN || status.UpdatedReplicas != updN {
				return fmt.Sprintf("status is not the census of the snapshot although nothing was created or deleted: got %d/%d/%d/%d want %d/%d/%d/%d",
					status.Replicas, status.ReadyReplicas, status.CurrentReplicas, status.UpdatedReplicas, n, ready, curN, updN)
			}
		}
	}
	return ""
}

func rcGen(rng *rand.Rand, prop string) *rcCase {
	c := &rcCase{Replicas: int32(rng.Intn(4))}
	for _, s := range []int32{0, 1, 2, 4} {
		if rng.Intn(4) == 0 {
			c.Slots = append(c.Slots, s)
		}
	}
	c.Policy = []string{"OrderedReady", "Parallel"}[rng.Intn(2)]
	c.Strategy = []string{"RollingUpdate", "RollingUpdate", "OnDelete"}[rng.Intn(3)]
	c.HasRU = rng.Intn(3) != 0
	p := int32([]int{0, 0, 1, 2, 3, 4, 5}[rng.Intn(7)])
	c.Partition = &p
	c.RolloutInStatus = rng.Intn(4) == 0
	if prop == "C15" {
		// everything the CRD admits: unknown strings, nil and negative partitions
		c.Strategy = []string{"RollingUpdate", "OnDelete", "Foo", ""}[rng.Intn(4)]
		c.Policy = []string{"OrderedReady", "Parallel", "Bar"}[rng.Intn(3)]
		switch rng.Intn(4) {
		case 0:
			c.Partition = nil
		case 1:
			q := int32(-1 - rng.Intn(3))
			c.Partition = &q
		}
	}
	c.Deleting = rng.Intn(12) == 0
	if prop == "C09" {
		c.FailCall = 1 + rng.Intn(3)
		c.FailKind = []string{"generic", "exists", "notfound", "conflict"}[rng.Intn(4)]
	}
	ordinals := []int{0, 1, 2, 3, 4, 5}
	if rng.Intn(4) == 0 {
		// a population that crosses ordinal 10 (two-digit ordinals sort differently as strings)
		c.Replicas = int32(8 + rng.Intn(3))
		ordinals = []int{0, 1, 2, 3, 4, 5, 6, 7, 8, 9, 10, 11, 12}
	}
	if prop == "C15" {
		ordinals = append(ordinals, math.MaxInt32)
	}
	if rng.Intn(8) == 0 {
		// directed: a healthy set that only has to scale in across the 9/10 boundary
		c.Replicas = int32(7 + rng.Intn(3))
		c.Slots = nil
		c.Deleting = false
		for o := 0; o <= 12; o++ {
			c.Pods = append(c.Pods, rcPod{o, "healthy", "update"})
		}
		return c
	}
	for _, o := range ordinals {
		if rng.Intn(3) == 0 {
			continue
		}
		st := []string{"healthy", "healthy", "healthy", "healthy", "healthy", "healthy", "pending", "failed", "succeeded", "terminating", "unready", "unknown", "failed-terminating", "succeeded-terminating"}[rng.Intn(14)]
		rv := []string{"current", "update", "update", "third"}[rng.Intn(4)]
		c.Pods = append(c.Pods, rcPod{o, st, rv})
	}
	return c
}

func TestReplayReconcile(t *testing.T) {
	prop := os.Getenv("VERIF_PROPERTY")
	if prop == "" {
		prop = "C03"
	}
	seed := int64(1)
	if s, err := strconv.ParseInt(os.Getenv("VERIF_SEED"), 10, 64); err == nil {
		seed = s + 1
	}
	n := 4000
	if s, err := strconv.Atoi(os.Getenv("VERIF_REPLAY_CASES")); err == nil {
		n = s
	}
	rng := rand.New(rand.NewSource(seed))
	found := 0
	seen := map[string]bool{}
	for i := 0; i < n && found < 3; i++ {
		c := rcGen(rng, prop)
		msg := rcJudge(prop, c)
		if msg == "" || seen[msg] {
			continue
		}
		seen[msg] = true
		c.Failure = msg
		_, ctl, _, _, _, _, _ := rcRun(c)
		if ctl != nil {
			for _, call := range ctl.calls {
				c.Calls = append(c.Calls, call.Verb+" "+call.Pod.Name)
			}
		}
		sort.Slice(c.Pods, func(a, b int) bool { return c.Pods[a].Ord < c.Pods[b].Ord })
		out, _ := json.Marshal(c)
		fmt.Printf("REPRODUCED %s\n", out)
		found++
	}
	if found == 0 {
		fmt.Printf("NOT-REPRODUCED bounded search: %d seeded cases (replicas 0..3 or 8..10, slots within {0,1,2,4}, pods at ordinals 0..5 or 0..12, nine pod states, both policies, strategies, partitions 0..5)\n", n)
	}
}
