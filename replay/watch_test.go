package helper

// Replay harness for property C20 (hijacked watch), injected into package helper with
// `go test -overlay`.  Run only after a C20 obligation failed: a bounded search over short
// event sequences on the REAL hijackWatch (receive run in a goroutine guarded by recover),
// judging what the consumer sees against the property statement.  Bounded, and about the
// sequential relay only; never counted as proof.

import (
	"encoding/json"
	"fmt"
	"testing"
	"time"

	asv1 "github.com/pingcap/advanced-statefulset/client/apis/apps/v1"
	appsv1 "k8s.io/api/apps/v1"
	metav1 "k8s.io/apimachinery/pkg/apis/meta/v1"
	"k8s.io/apimachinery/pkg/runtime"
	utilruntime "k8s.io/apimachinery/pkg/util/runtime"
	"k8s.io/apimachinery/pkg/watch"
)

type wtCase struct {
	Events    []string `json:"events"`
	StopAfter int      `json:"consumer_stops_after"` // the consumer calls Stop() (twice) after this many events and keeps draining; -1: never
	Failure string   `json:"failure,omitempty"`
	Got     []string `json:"got,omitempty"`
}

func wtJudge(c *wtCase) (msg string) {
	src := watch.NewFakeWithChanSize(len(c.Events)+1, false)
	var objs []runtime.Object
	for i, k := range c.Events {
		switch k {
		case "ERROR":
			st := &metav1.Status{Status: metav1.StatusFailure, Reason: metav1.StatusReasonExpired, Message: fmt.Sprintf("too old %d", i)}
			objs = append(objs, st)
			src.Error(st)
		default:
			s := &asv1.StatefulSet{ObjectMeta: metav1.ObjectMeta{Name: fmt.Sprintf("s%d", i), Namespace: "ns"}}
			objs = append(objs, s)
			src.Action(watch.EventType(k), s)
		}
	}
	w := &hijackWatch{source: src, result: make(chan watch.Event)}
	crashed := make(chan string, 1)
	saved := utilruntime.ReallyCrash
	defer func() { utilruntime.ReallyCrash = saved }()
	utilruntime.ReallyCrash = true
	go func() {
		defer func() {
			if r := recover(); r != nil {
				crashed <- fmt.Sprint(r)
			} else {
				crashed <- ""
			}
		}()
		w.receive()
	}()
	for i := range c.Events {
		if i == c.StopAfter {
			return wtStopEarly(c, w, crashed, i)
		}
		select {
		case ev, ok := <-w.ResultChan():
			if !ok {
				return fmt.Sprintf("result channel closed after %d of %d events", i, len(c.Events))
			}
			c.Got = append(c.Got, string(ev.Type))
			if string(ev.Type) != c.Events[i] {
				return fmt.Sprintf("event %d has type %s, the source sent %s", i, ev.Type, c.Events[i])
			}
			if c.Events[i] == "ERROR" {
				if ev.Object != objs[i] {
					return fmt.Sprintf("error event %d does not carry the source's status object", i)
				}
			} else {
				b, ok := ev.Object.(*appsv1.StatefulSet)
				if !ok || b.Name != objs[i].(*asv1.StatefulSet).Name || b.APIVersion != "apps/v1" {
					return fmt.Sprintf("event %d does not carry the equivalent built-in object", i)
				}
			}
		case p := <-crashed:
			if p == "" {
				return fmt.Sprintf("the relay ended before event %d (%s) was delivered although the source had not ended", i, c.Events[i])
			}
			return fmt.Sprintf("relay goroutine ended with panic %q at event %d (%s): the process would crash", p, i, c.Events[i])
		case <-time.After(2 * time.Second):
			return fmt.Sprintf("event %d never arrived", i)
		}
	}
	// the source ends: the result channel must be closed and the source stopped
	src.Stop()
	select {
	case _, ok := <-w.ResultChan():
		if ok {
			return "an extra event was delivered after the source ended"
		}
	case <-time.After(2 * time.Second):
		return "result channel not closed after the source ended"
	}
	if p := <-crashed; p != "" {
		return "relay goroutine panicked on shutdown: " + p
	}
	if !w.stopped {
		return "watch not marked stopped after the source ended"
	}
	return ""
}

// wtStopEarly: the consumer has read `got` events and stops the watch while the source still holds events (the relay
// is by then blocked handing over the next one).  It calls Stop twice and keeps draining, as a well-behaved consumer
// may; the relay must end without a panic, the channel must be closed, and what arrives before the close must
// continue the source's sequence.
func wtStopEarly(c *wtCase, w *hijackWatch, crashed chan string, got int) (msg string) {
	time.Sleep(20 * time.Millisecond) // let the relay take the next event and block on the hand-over
	stopPanic := ""
	func() {
		defer func() {
			if r := recover(); r != nil {
				stopPanic = fmt.Sprint(r)
			}
		}()
		w.Stop()
		w.Stop()
	}()
	if stopPanic != "" {
		return "Stop() panicked: " + stopPanic
	}
	closed := false
	for n := got; !closed; n++ {
		select {
		case ev, ok := <-w.ResultChan():
			if !ok {
				closed = true
				break
			}
			c.Got = append(c.Got, string(ev.Type))
			if n >= len(c.Events) || string(ev.Type) != c.Events[n] {
				return fmt.Sprintf("after Stop() event %d of type %s arrived, which is not the source's next event", n, ev.Type)
			}
		case p := <-crashed:
			if p != "" {
				return fmt.Sprintf("relay goroutine ended with panic %q after the consumer called Stop() with an event in flight: the process would crash", p)
			}
			crashed <- p
			time.Sleep(time.Millisecond)
		case <-time.After(2 * time.Second):
			return "result channel not closed after Stop()"
		}
	}
	select {
	case p := <-crashed:
		if p != "" {
			return "relay goroutine panicked on shutdown after Stop(): " + p
		}
	case <-time.After(2 * time.Second):
		return "relay goroutine still running after Stop() and a drained channel"
	}
	return ""
}

func TestReplayWatch(t *testing.T) {
	kinds := []string{"ADDED", "MODIFIED", "DELETED", "BOOKMARK", "ERROR"}
	var seqs [][]string
	seqs = append(seqs, nil)
	for _, a := range kinds {
		seqs = append(seqs, []string{a})
		for _, b := range kinds {
			seqs = append(seqs, []string{a, b})
			for _, c := range kinds {
				seqs = append(seqs, []string{a, b, c})
			}
		}
	}
	found := 0
	seen := map[string]bool{}
	for _, s := range seqs {
		if found >= 3 {
			break
		}
		c := &wtCase{Events: s, StopAfter: -1}
		msg := wtJudge(c)
		for k := 0; msg == "" && k < len(s); k++ {
			c = &wtCase{Events: s, StopAfter: k}
			msg = wtJudge(c)
		}
		key := msg
		if len(key) > 28 {
			key = key[:28]
		}
		if msg == "" || seen[key] {
			continue
		}
		seen[key] = true
		c.Failure = msg
		out, _ := json.Marshal(c)
		fmt.Printf("REPRODUCED %s\n", out)
		found++
	}
	if found == 0 {
		fmt.Printf("NOT-REPRODUCED bounded search: %d event sequences of length <= 3 over {ADDED, MODIFIED, DELETED, BOOKMARK, ERROR} through the real relay, each also with the consumer stopping after every proper prefix\n", len(seqs))
	}
}
