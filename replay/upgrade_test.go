package helper

// Replay harness for property C17 (upgrade from the built-in StatefulSet),
// injected into package helper with `go test -overlay`.  Run only after a C17
// obligation failed: a bounded search on the REAL Upgrade with the two fake
// clientsets, with a failure injected at each API call in turn, judging the
// recorded call sequence against the property statement.  Bounded; never
// counted as proof.

import (
	"context"
	"encoding/json"
	"errors"
	"fmt"
	"testing"

	asv1 "github.com/pingcap/advanced-statefulset/client/apis/apps/v1"
	asfake "github.com/pingcap/advanced-statefulset/client/client/clientset/versioned/fake"
	appsv1 "k8s.io/api/apps/v1"
	apierrors "k8s.io/apimachinery/pkg/api/errors"
	metav1 "k8s.io/apimachinery/pkg/apis/meta/v1"
	"k8s.io/apimachinery/pkg/runtime"
	"k8s.io/apimachinery/pkg/runtime/schema"
	"k8s.io/client-go/kubernetes/fake"
	core "k8s.io/client-go/testing"
)

type upCase struct {
	Revisions int      `json:"revisions"`
	Existing  bool     `json:"advanced_set_exists"`
	FailAt    int      `json:"fail_at_call"`        // -1: none
	FailKind  string   `json:"fail_kind,omitempty"` // generic | conflict | notfound | exists
	Calls     []string `json:"calls,omitempty"`
	Failure   string   `json:"failure,omitempty"`
}

func upJudge(c *upCase) string {
	sel := map[string]string{"app": "web", "tier": "db"}
	one := int32(1)
	sts := &appsv1.StatefulSet{
		ObjectMeta: metav1.ObjectMeta{Name: "web", Namespace: "ns", ResourceVersion: "7"},
		Spec:       appsv1.StatefulSetSpec{Replicas: &one, Selector: &metav1.LabelSelector{MatchLabels: sel}, ServiceName: "svc"},
		Status:     appsv1.StatefulSetStatus{Replicas: 1, ReadyReplicas: 1, CurrentRevision: "web-1"},
	}
	objs := []runtime.Object{sts}
	for i := 0; i < c.Revisions; i++ {
		l := map[string]string{"extra": "x"}
		for k, v := range sel {
			l[k] = v
		}
		objs = append(objs, &appsv1.ControllerRevision{ObjectMeta: metav1.ObjectMeta{Name: fmt.Sprintf("web-%d", i), Namespace: "ns", Labels: l}, Revision: int64(i)})
	}
	kube := fake.NewSimpleClientset(objs...)
	var asc *asfake.Clientset
	if c.Existing {
		ex, err := FromBuiltinStatefulSet(sts)
		if err != nil {
			return ""
		}
		ex.Spec.ServiceName = "old"
		ex.Status.ReadyReplicas = 0 // left behind by an earlier, interrupted run: the status was never written
		ex.Status.CurrentRevision = ""
		asc = asfake.NewSimpleClientset(ex)
	} else {
		asc = asfake.NewSimpleClientset()
	}
	n := 0
	var calls []string
	failed := false
	hook := func(who string) core.ReactionFunc {
		return func(a core.Action) (bool, runtime.Object, error) {
			desc := who + ":" + a.GetVerb() + " " + a.GetResource().Resource
			if a.GetSubresource() != "" {
				desc += "/" + a.GetSubresource()
			}
			if da, ok := a.(core.DeleteActionImpl); ok {
				desc += " " + da.Name
				_ = da
			}
			idx := n
			n++
			if idx == c.FailAt {
				failed = true
				calls = append(calls, desc+" FAILS")
				gr := schema.GroupResource{Group: a.GetResource().Group, Resource: a.GetResource().Resource}
				switch c.FailKind {
				case "conflict":
					return true, nil, apierrors.NewConflict(gr, "x", errors.New("injected"))
				case "notfound":
					return true, nil, apierrors.NewNotFound(gr, "x")
				case "exists":
					return true, nil, apierrors.NewAlreadyExists(gr, "x")
				}
				return true, nil, errors.New("injected")
			}
			calls = append(calls, desc)
			return false, nil, nil
		}
	}
	kube.PrependReactor("*", "*", hook("kube"))
	asc.PrependReactor("*", "*", hook("asts"))
	got, err := Upgrade(context.TODO(), kube, asc, sts)
	c.Calls = calls
	toleratedNotFound := c.FailKind == "notfound" && len(calls) > 0 && contains(calls[len(calls)-1], "kube:delete statefulsets") && contains(calls[len(calls)-1], "FAILS")
	getNotFound := c.FailKind == "notfound" && func() bool {
		for _, cl := range calls {
			if contains(cl, "asts:get statefulsets") && contains(cl, "FAILS") {
				return true
			}
		}
		return false
	}()
	// judge
	afterFail := false
	relabelled := 0
	astsWritten, statusWritten := false, false
	for _, call := range calls {
		if afterFail && !getNotFound {
			return "an API call was issued after one failed: " + call
		}
		if len(call) > 6 && call[len(call)-5:] == "FAILS" {
			afterFail = true
			continue
		}
		switch {
		case call == "kube:update controllerrevisions":
			if astsWritten {
				return "a revision was relabelled after the Advanced StatefulSet was written"
			}
			relabelled++
		case call == "asts:create statefulsets" || call == "asts:update statefulsets":
			if relabelled < c.Revisions {
				return fmt.Sprintf("the Advanced StatefulSet was written after only %d of %d revisions were relabelled", relabelled, c.Revisions)
			}
			astsWritten = true
		case call == "asts:update statefulsets/status":
			if !astsWritten {
				return "status written before the object"
			}
			statusWritten = true
		case len(call) >= 24 && call[:24] == "kube:delete statefulsets":
			if !astsWritten || !statusWritten {
				return "the built-in StatefulSet was deleted before the Advanced StatefulSet and its status were written"
			}
		case call[:5] == "kube:" && (contains(call, "pods") || contains(call, "persistentvolumeclaims")):
			return "Upgrade touched pods or claims: " + call
		}
	}
	if failed && err == nil && !toleratedNotFound && !getNotFound {
		return "an API call failed but Upgrade reported success"
	}
	if !failed && err != nil {
		return fmt.Sprintf("Upgrade failed although no API call failed: %v", err)
	}
	// relabelled revisions: marker set, selector labels gone
	for _, a := range kube.Actions() {
		if ua, ok := a.(core.UpdateAction); ok && a.GetVerb() == "update" && a.GetResource().Resource == "controllerrevisions" {
			rev := ua.GetObject().(*appsv1.ControllerRevision)
			if rev.Labels[UpgradeToAdvancedStatefulSetAnn] != sts.Name {
				return "relabelled revision " + rev.Name + " does not carry the marker with the set's name"
			}
			for k := range sel {
				if _, ok := rev.Labels[k]; ok {
					return "relabelled revision " + rev.Name + " still carries selector label " + k
				}
			}
		}
		if da, ok := a.(core.DeleteAction); ok && a.GetVerb() == "delete" && a.GetResource().Resource == "statefulsets" {
			_ = da
			impl, ok := a.(core.DeleteActionImpl)
			if ok {
				pp := impl.DeleteOptions.PropagationPolicy
				if pp == nil || *pp != metav1.DeletePropagationOrphan {
					return "the final delete does not orphan the dependents"
				}
			}
		}
	}
	for _, a := range asc.Actions() {
		if ua, ok := a.(core.UpdateAction); ok && a.GetVerb() == "update" && a.GetSubresource() == "status" {
			if w, ok := ua.GetObject().(interface{ GetName() string }); ok && w != nil {
				if b, err := ToBuiltinStatefulSet(ua.GetObject().(*asv1.StatefulSet)); err == nil {
					if b.Status.ReadyReplicas != sts.Status.ReadyReplicas || b.Status.Replicas != sts.Status.Replicas || b.Status.CurrentRevision != sts.Status.CurrentRevision {
						return fmt.Sprintf("the status written to the Advanced StatefulSet (replicas=%d ready=%d current=%q) is not the built-in one's (replicas=%d ready=%d current=%q)",
							b.Status.Replicas, b.Status.ReadyReplicas, b.Status.CurrentRevision, sts.Status.Replicas, sts.Status.ReadyReplicas, sts.Status.CurrentRevision)
					}
				}
			}
		}
		if ca, ok := a.(core.CreateAction); ok && a.GetVerb() == "create" {
			if m, ok := ca.GetObject().(metav1.Object); ok && m.GetResourceVersion() != "" {
				return "create carries a resource version"
			}
		}
	}
	if err == nil {
		if got == nil || got.Name != sts.Name || got.Spec.ServiceName != sts.Spec.ServiceName || got.Status.ReadyReplicas != sts.Status.ReadyReplicas {
			return "the Advanced StatefulSet returned differs from the built-in in name, spec or status"
		}
	}
	return ""
}

func contains(s, sub string) bool {
	for i := 0; i+len(sub) <= len(s); i++ {
		if s[i:i+len(sub)] == sub {
			return true
		}
	}
	return false
}

func TestReplayUpgrade(t *testing.T) {
	found := 0
	seen := map[string]bool{}
	tried := 0
	for _, revs := range []int{0, 1, 2, 3} {
		for _, existing := range []bool{false, true} {
			for failAt := -1; failAt < revs+6; failAt++ {
				for _, kind := range []string{"generic", "conflict", "notfound", "exists"} {
					if found >= 3 || (failAt == -1 && kind != "generic") {
						continue
					}
					tried++
					c := &upCase{Revisions: revs, Existing: existing, FailAt: failAt, FailKind: kind}
					msg := upJudge(c)
					key := msg
					if len(key) > 30 {
						key = key[:30]
					}
					if msg == "" || seen[key] {
						continue
					}
					seen[key] = true
					c.Failure = msg
					out, _ := json.Marshal(c)
					fmt.Printf("REPRODUCED %s\n", out)
					found++
				}
			}
		}
	}
	if found == 0 {
		fmt.Printf("NOT-REPRODUCED bounded search: %d runs of Upgrade (0..3 revisions x existing/new x a failure of each kind (generic, conflict, not-found, already-exists) injected at each call)\n", tried)
	}
}
