package helper

// Replay harness for property C19 (lossless client helpers), injected into package helper
// with `go test -overlay`.  Run only after a C19 obligation failed: a bounded search over
// small annotation maps, slot sets and objects on the REAL helpers, judged against the
// property statement.  Bounded; never counted as proof.

import (
	"encoding/json"
	"fmt"
	"testing"

	asv1 "github.com/pingcap/advanced-statefulset/client/apis/apps/v1"
	appsv1 "k8s.io/api/apps/v1"
	apiequality "k8s.io/apimachinery/pkg/api/equality"
	metav1 "k8s.io/apimachinery/pkg/apis/meta/v1"
	"k8s.io/apimachinery/pkg/util/sets"
)

type c19Case struct {
	Annotations map[string]string `json:"annotations"`
	NilMap      bool              `json:"annotations_nil"`
	Slots       []int32           `json:"slots"`
	NilSlots    bool              `json:"slots_nil"`
	Op          string            `json:"op"`
	Failure     string            `json:"failure,omitempty"`
}

func c19Obj(c *c19Case) *asv1.StatefulSet {
	s := &asv1.StatefulSet{ObjectMeta: metav1.ObjectMeta{Name: "web", Namespace: "ns"}}
	if !c.NilMap {
		s.Annotations = map[string]string{}
		for k, v := range c.Annotations {
			s.Annotations[k] = v
		}
	}
	return s
}

func c19Others(before, after map[string]string, own string) string {
	for k, v := range before {
		if k == own {
			continue
		}
		if w, ok := after[k]; !ok || w != v {
			return fmt.Sprintf("annotation %q was disturbed (%q -> %q, present=%v)", k, v, w, ok)
		}
	}
	for k := range after {
		if k == own {
			continue
		}
		if _, ok := before[k]; !ok {
			return fmt.Sprintf("annotation %q appeared", k)
		}
	}
	return ""
}

func c19Judge(c *c19Case) string {
	obj := c19Obj(c)
	before := map[string]string{}
	for k, v := range obj.Annotations {
		before[k] = v
	}
	var slots sets.Int32
	if !c.NilSlots {
		slots = sets.NewInt32(c.Slots...)
	}
	switch c.Op {
	case "set":
		if err := SetDeleteSlots(obj, slots); err != nil {
			return "SetDeleteSlots failed: " + err.Error()
		}
		got := GetDeleteSlots(obj)
		want := sets.NewInt32(c.Slots...)
		if c.NilSlots {
			want = sets.NewInt32()
		}
		if !got.Equal(want) {
			return fmt.Sprintf("wrote %v, read back %v", want.List(), got.List())
		}
		if want.Len() == 0 {
			if _, ok := obj.Annotations[DeleteSlotsAnn]; ok {
				return "writing an empty set left the annotation in place"
			}
		}
		return c19Others(before, obj.Annotations, DeleteSlotsAnn)
	case "add":
		old := GetDeleteSlots(obj)
		if err := AddDeleteSlots(obj, slots); err != nil {
			return "AddDeleteSlots failed: " + err.Error()
		}
		want := old.Union(sets.NewInt32(c.Slots...))
		if got := GetDeleteSlots(obj); !got.Equal(want) {
			return fmt.Sprintf("union should be %v, read back %v", want.List(), got.List())
		}
		return c19Others(before, obj.Annotations, DeleteSlotsAnn)
	case "pause", "unpause":
		SetPausedReconcile(obj, c.Op == "pause")
		if GetPausedReconcile(obj) != (c.Op == "pause") {
			return "pause flag does not read back"
		}
		return c19Others(before, obj.Annotations, PausedReconcileAnn)
	case "default":
		// client-side defaulting applied twice equals applying it once (bounded: a few strategy shapes)
		for _, shape := range []string{"empty", "rolling-nopartition", "rolling-partition", "ondelete", "rolling-nil"} {
			d := c19Obj(c)
			switch shape {
			case "rolling-nopartition":
				d.Spec.UpdateStrategy = asv1.StatefulSetUpdateStrategy{Type: asv1.RollingUpdateStatefulSetStrategyType, RollingUpdate: &asv1.RollingUpdateStatefulSetStrategy{}}
			case "rolling-partition":
				two := int32(2)
				d.Spec.UpdateStrategy = asv1.StatefulSetUpdateStrategy{Type: asv1.RollingUpdateStatefulSetStrategyType, RollingUpdate: &asv1.RollingUpdateStatefulSetStrategy{Partition: &two}}
			case "ondelete":
				d.Spec.UpdateStrategy = asv1.StatefulSetUpdateStrategy{Type: asv1.OnDeleteStatefulSetStrategyType}
			case "rolling-nil":
				d.Spec.UpdateStrategy = asv1.StatefulSetUpdateStrategy{Type: asv1.RollingUpdateStatefulSetStrategyType}
			}
			asv1.SetObjectDefaults_StatefulSet(d)
			once := d.DeepCopy()
			asv1.SetObjectDefaults_StatefulSet(d)
			if !apiequality.Semantic.DeepEqual(once, d) {
				return "defaulting applied twice differs from applying it once (update strategy shape: " + shape + ")"
			}
		}
	case "convert":
		one := int32(1)
		b := &appsv1.StatefulSet{ObjectMeta: metav1.ObjectMeta{Name: "web", Namespace: "ns", Annotations: obj.Annotations, Labels: map[string]string{"a": "b"}},
			Spec: appsv1.StatefulSetSpec{Replicas: &one, ServiceName: "svc", Selector: &metav1.LabelSelector{MatchLabels: map[string]string{"a": "b"}}}, Status: appsv1.StatefulSetStatus{Replicas: 1, CurrentRevision: "r"}}
		a, err := FromBuiltinStatefulSet(b)
		if err != nil {
			return "FromBuiltinStatefulSet failed: " + err.Error()
		}
		if a.APIVersion != asv1.SchemeGroupVersion.String() {
			return "converted object is not typed " + asv1.SchemeGroupVersion.String()
		}
		back, err := ToBuiltinStatefulSet(a)
		if err != nil {
			return "ToBuiltinStatefulSet failed: " + err.Error()
		}
		if back.APIVersion != "apps/v1" {
			return "object read back is not typed apps/v1"
		}
		back.TypeMeta = b.TypeMeta
		if !apiequality.Semantic.DeepEqual(back.ObjectMeta, b.ObjectMeta) || !apiequality.Semantic.DeepEqual(back.Spec, b.Spec) || !apiequality.Semantic.DeepEqual(back.Status, b.Status) {
			return "round trip through the Advanced type changed the object"
		}
		l := &asv1.StatefulSetList{Items: []asv1.StatefulSet{*a, *a.DeepCopy(), *a.DeepCopy()}}
		l.Items[1].Name = "second"
		l.Items[2].Name = "third"
		bl, err := ToBuiltinStetefulsetList(l)
		if err != nil {
			return "list conversion failed: " + err.Error()
		}
		if len(bl.Items) != 3 || bl.Items[0].Name != "web" || bl.Items[1].Name != "second" || bl.Items[2].Name != "third" {
			return "list conversion changed length or order"
		}
		for i := range bl.Items {
			if bl.Items[i].APIVersion != "apps/v1" || bl.APIVersion != "apps/v1" {
				return "list items are not typed apps/v1"
			}
		}
	}
	return ""
}

func TestReplayC19(t *testing.T) {
	maps := []map[string]string{{}, {"other": "x"}, {DeleteSlotsAnn: "[1,3]"}, {DeleteSlotsAnn: "[1,3]", "other": "x", PausedReconcileAnn: "true"}, {DeleteSlotsAnn: "garbage", PausedReconcileAnn: "false"}}
	slotSets := [][]int32{{}, {0}, {1, 3}, {2, -5, 2147483647}, {-2147483648}}
	found, tried := 0, 0
	seen := map[string]bool{}
	try := func(c *c19Case) {
		if found >= 3 {
			return
		}
		tried++
		msg := c19Judge(c)
		key := msg
		if len(key) > 24 {
			key = key[:24]
		}
		if msg == "" || seen[key] {
			return
		}
		seen[key] = true
		c.Failure = msg
		out, _ := json.Marshal(c)
		fmt.Printf("REPRODUCED %s\n", out)
		found++
	}
	for _, op := range []string{"set", "add", "pause", "unpause", "convert", "default"} {
		try(&c19Case{NilMap: true, NilSlots: true, Op: op})
		try(&c19Case{NilMap: true, Slots: []int32{4}, Op: op})
		for _, m := range maps {
			try(&c19Case{Annotations: m, NilSlots: true, Op: op})
			for _, s := range slotSets {
				try(&c19Case{Annotations: m, Slots: s, Op: op})
			}
		}
	}
	if found == 0 {
		fmt.Printf("NOT-REPRODUCED bounded search: %d runs (6 operations x nil/5 annotation maps x nil/5 slot sets) on the real helpers\n", tried)
	}
}
