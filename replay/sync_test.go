package statefulset

// Replay harness for the sync-level properties (C11 deleted/paused sets, C10
// ownership, C09 self-inflicted failures), injected with `go test -overlay`.
// Run only after an obligation failed: a small directed search on the REAL
// StatefulSetController.sync / adoptOrphanRevisions with fake clientsets, with
// every API verb recorded.  Bounded; never counted as proof.

import (
	"encoding/json"
	"fmt"
	"os"
	"testing"

	"github.com/pingcap/advanced-statefulset/client/apis/apps/v1/helper"
	pcfake "github.com/pingcap/advanced-statefulset/client/client/clientset/versioned/fake"
	kubeapps "k8s.io/api/apps/v1"
	v1 "k8s.io/api/core/v1"
	metav1 "k8s.io/apimachinery/pkg/apis/meta/v1"
	"k8s.io/apimachinery/pkg/runtime"
	"k8s.io/apimachinery/pkg/types"
	kubefake "k8s.io/client-go/kubernetes/fake"
	core "k8s.io/client-go/testing"
)

type syCase struct {
	Deleting  bool     `json:"set_deleting"`
	Paused    bool     `json:"set_paused"`
	Revisions []string `json:"revisions"` // each: "orphan" | "owned" | "foreign", optionally "+marker"
	OrphanPod bool     `json:"orphan_pod"`
	Failure   string   `json:"failure,omitempty"`
	Writes    []string `json:"writes,omitempty"`
}

func syWrites(actions []core.Action) []string {
	var out []string
	for _, a := range actions {
		switch a.GetVerb() {
		case "create", "update", "patch", "delete":
			out = append(out, a.GetVerb()+" "+a.GetResource().Resource+"/"+a.GetSubresource())
		}
	}
	return out
}

func syJudge(prop string, c *syCase) string {
	set := newStatefulSet(2)
	set.UID = types.UID("self-uid")
	if c.Deleting {
		now := metav1.Now()
		set.DeletionTimestamp = &now
	}
	if c.Paused {
		helper.SetPausedReconcile(set, true)
	}
	ssc, _ := newFakeStatefulSetController(set)
	kube := ssc.kubeClient.(*kubefake.Clientset)
	pc := ssc.pcClient.(*pcfake.Clientset)
	tr := true
	for i, kind := range c.Revisions {
		rev := &kubeapps.ControllerRevision{ObjectMeta: metav1.ObjectMeta{Name: fmt.Sprintf("rev-%d", i), Namespace: set.Namespace, Labels: map[string]string{}}, Revision: int64(i + 1)}
		for k, v := range set.Spec.Selector.MatchLabels {
			rev.Labels[k] = v
		}
		switch kind {
		case "owned":
			rev.OwnerReferences = []metav1.OwnerReference{{APIVersion: "apps.pingcap.com/v1", Kind: "StatefulSet", Name: set.Name, UID: set.UID, Controller: &tr}}
		case "foreign":
			rev.OwnerReferences = []metav1.OwnerReference{{APIVersion: "apps/v1", Kind: "DaemonSet", Name: "x", UID: "other", Controller: &tr}}
		case "orphan+marker":
			rev.Labels[helper.UpgradeToAdvancedStatefulSetAnn] = set.Name
		}
		if err := kube.Tracker().Add(rev); err != nil {
			return ""
		}
	}
	kube.ClearActions()
	pc.ClearActions()
	err := ssc.adoptOrphanRevisions(set)
	writes := append(syWrites(kube.Actions()), syWrites(pc.Actions())...)
	c.Writes = writes
	switch prop {
	case "C11":
		if c.Deleting {
			for _, w := range writes {
				return "set carries a deletion timestamp but adoptOrphanRevisions issued: " + w
			}
		}
	case "C09", "C02":
		if err != nil {
			return fmt.Sprintf("adoptOrphanRevisions failed although no API call failed: %v", err)
		}
	case "C10":
		for i, kind := range c.Revisions {
			if kind != "foreign" {
				continue
			}
			for _, a := range kube.Actions() {
				if n, ok := a.(interface{ GetName() string }); ok && n.GetName() == fmt.Sprintf("rev-%d", i) && a.GetVerb() != "get" {
					return fmt.Sprintf("revision rev-%d controlled by another owner was written to (%s)", i, a.GetVerb())
				}
				if ua, ok := a.(core.UpdateAction); ok {
					if m, ok := ua.GetObject().(metav1.Object); ok && m.GetName() == fmt.Sprintf("rev-%d", i) {
						return fmt.Sprintf("revision rev-%d controlled by another owner was updated", i)
					}
				}
			}
		}
	}
	return ""
}

// syFull runs one full sync of the set against a small pod population through the fake controller and
// judges the API writes recorded by the fake clientsets.
type syFullCase struct {
	Deleting       bool     `json:"set_deleting"`
	Paused         bool     `json:"set_paused"`
	Pods           []string `json:"pods"` // owned | owned-nomatch | orphan | orphan-terminating | orphan-nomatch | foreign | orphan-othername
	OrphanRevision bool     `json:"orphan_revision"`
	Failure        string   `json:"failure,omitempty"`
	Writes         []string `json:"writes,omitempty"`
}

func syFullJudge(prop string, c *syFullCase) string {
	set := newStatefulSet(len(c.Pods))
	set.UID = types.UID("self-uid")
	if c.Deleting {
		now := metav1.Now()
		set.DeletionTimestamp = &now
	}
	if c.Paused {
		helper.SetPausedReconcile(set, true)
	}
	tr := true
	var objs []runtime.Object
	objs = append(objs, set)
	var pods []*v1.Pod
	for i, kind := range c.Pods {
		p := newStatefulSetPod(set, i)
		p.Status.Phase = v1.PodRunning
		p.Status.Conditions = []v1.PodCondition{{Type: v1.PodReady, Status: v1.ConditionTrue}}
		p.OwnerReferences = []metav1.OwnerReference{{APIVersion: "apps.pingcap.com/v1", Kind: "StatefulSet", Name: set.Name, UID: set.UID, Controller: &tr}}
		switch kind {
		case "owned-nomatch":
			p.Labels = map[string]string{"foo": "not-bar"}
		case "orphan":
			p.OwnerReferences = nil
		case "orphan-terminating":
			p.OwnerReferences = nil
			now := metav1.Now()
			p.DeletionTimestamp = &now
		case "orphan-nomatch":
			p.OwnerReferences = nil
			p.Labels = map[string]string{"foo": "not-bar"}
		case "foreign":
			p.OwnerReferences = []metav1.OwnerReference{{APIVersion: "apps/v1", Kind: "ReplicaSet", Name: "rs", UID: "other-uid", Controller: &tr}}
		case "orphan-othername":
			// labels match, but the name is that of a pod of the longer-named set "<set>-extra"
			p.OwnerReferences = nil
			p.Name = fmt.Sprintf("%s-extra-%d", set.Name, i)
		}
		pods = append(pods, p)
		objs = append(objs, p)
	}
	ssc, spc := newFakeStatefulSetController(objs...)
	spc.setsIndexer.Add(set)
	for _, p := range pods {
		spc.podsIndexer.Add(p)
	}
	kube := ssc.kubeClient.(*kubefake.Clientset)
	pc := ssc.pcClient.(*pcfake.Clientset)
	if c.OrphanRevision {
		rev := &kubeapps.ControllerRevision{ObjectMeta: metav1.ObjectMeta{Name: "orphan-rev", Namespace: set.Namespace, Labels: map[string]string{}}, Revision: 1}
		for k, v := range set.Spec.Selector.MatchLabels {
			rev.Labels[k] = v
		}
		kube.Tracker().Add(rev)
	}
	kube.ClearActions()
	pc.ClearActions()
	if err := ssc.sync(set.Namespace + "/" + set.Name); err != nil && prop == "C09" {
		return fmt.Sprintf("sync failed although no API call failed: %v", err)
	}
	type w struct{ verb, res, name string }
	var ws []w
	for _, a := range append(kube.Actions(), pc.Actions()...) {
		switch a.GetVerb() {
		case "create", "update", "patch", "delete":
			name := ""
			if n, ok := a.(interface{ GetName() string }); ok {
				name = n.GetName()
			}
			if ca, ok := a.(core.CreateAction); ok && a.GetVerb() != "patch" && a.GetVerb() != "delete" {
				if m, ok := ca.GetObject().(metav1.Object); ok {
					name = m.GetName()
				}
			}
			if a.GetResource().Resource == "events" {
				continue
			}
			ws = append(ws, w{a.GetVerb(), a.GetResource().Resource + "/" + a.GetSubresource(), name})
			c.Writes = append(c.Writes, a.GetVerb()+" "+a.GetResource().Resource+"/"+a.GetSubresource()+" "+name)
		}
	}
	for _, x := range ws {
		if c.Paused {
			return "the set is paused but sync issued: " + x.verb + " " + x.res + " " + x.name
		}
		if c.Deleting && (x.res == "pods/" || x.res == "persistentvolumeclaims/") {
			return "the set is being deleted but sync issued: " + x.verb + " " + x.res + " " + x.name
		}
		if c.Deleting && x.res == "controllerrevisions/" && x.verb == "patch" {
			return "the set is being deleted but a revision was adopted: " + x.name
		}
		for i, kind := range c.Pods {
			if x.res != "pods/" || x.name != pods[i].Name {
				continue
			}
			switch kind {
			case "foreign":
				return "a pod controlled by another owner was written: " + x.verb + " " + x.name
			case "orphan-othername":
				return "an orphan whose name is not <set>-<ordinal> was written (adopted?): " + x.verb + " " + x.name
			case "orphan-terminating", "orphan-nomatch":
				return "an orphan that is terminating or does not match was written (adopted?): " + x.verb + " " + x.name
			case "owned-nomatch":
				if x.verb == "delete" {
					return "a pod that stopped matching was deleted instead of released: " + x.name
				}
			}
		}
	}
	return ""
}

func TestReplaySync(t *testing.T) {
	prop := os.Getenv("VERIF_PROPERTY")
	if prop == "" {
		prop = "C11"
	}
	kinds := []string{"orphan", "owned", "foreign", "orphan+marker"}
	found := 0
	seen := map[string]bool{}
	var pops [][]string
	pops = append(pops, nil)
	for _, a := range kinds {
		pops = append(pops, []string{a})
		for _, b := range kinds {
			pops = append(pops, []string{a, b})
		}
	}
	for _, deleting := range []bool{false, true} {
		for _, revs := range pops {
			if found >= 3 {
				break
			}
			c := &syCase{Deleting: deleting, Revisions: revs}
			msg := syJudge(prop, c)
			key := msg
			if len(key) > 40 {
				key = key[:40]
			}
			if msg == "" || seen[key] {
				continue
			}
			seen[key] = true
			c.Failure = msg
			out, _ := json.Marshal(c)
			fmt.Printf("REPRODUCED %s\n", out)
			found++
		}
	}
	// full syncs over small pod populations
	podKinds := []string{"owned", "owned-nomatch", "orphan", "orphan-terminating", "orphan-nomatch", "foreign", "orphan-othername"}
	full := 0
	for _, deleting := range []bool{false, true} {
		for _, paused := range []bool{false, true} {
			for _, orev := range []bool{false, true} {
				for _, a := range podKinds {
					for _, b := range podKinds {
						if found >= 3 {
							break
						}
						full++
						c := &syFullCase{Deleting: deleting, Paused: paused, Pods: []string{"owned", a, b}, OrphanRevision: orev}
						msg := syFullJudge(prop, c)
						key := msg
						if len(key) > 40 {
							key = key[:40]
						}
						if msg == "" || seen[key] {
							continue
						}
						seen[key] = true
						c.Failure = msg
						out, _ := json.Marshal(c)
						fmt.Printf("REPRODUCED %s\n", out)
						found++
					}
				}
			}
		}
	}
	if found == 0 {
		fmt.Printf("NOT-REPRODUCED bounded search: %d revision populations x deleting flag on adoptOrphanRevisions; %d full syncs (deleting x paused x orphan revision x 7x7 pod kinds)\n", len(pops), full)
	}
}
