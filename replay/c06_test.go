package statefulset

// Replay harness for property C06 (stable identity and storage per ordinal), injected with
// `go test -overlay`.  Run only after a C06 obligation failed: a bounded search over small
// sets (names, ordinals, claim-template lists, claim failures) on the REAL newVersionedStatefulSetPod
// and realStatefulPodControl with the fake clientset, recording the order of API writes.
// Bounded; never counted as proof.

import (
	"encoding/json"
	"errors"
	"fmt"
	"testing"

	apps "github.com/pingcap/advanced-statefulset/client/apis/apps/v1"
	v1 "k8s.io/api/core/v1"
	metav1 "k8s.io/apimachinery/pkg/apis/meta/v1"
	"k8s.io/apimachinery/pkg/runtime"
	"k8s.io/apimachinery/pkg/types"
	"k8s.io/client-go/kubernetes/fake"
	corelisters "k8s.io/client-go/listers/core/v1"
	core "k8s.io/client-go/testing"
	"k8s.io/client-go/tools/cache"
	"k8s.io/client-go/tools/record"
)

type c06Case struct {
	SetName   string   `json:"set_name"`
	Ordinal   int      `json:"ordinal"`
	Templates []string `json:"claim_templates"`
	TmplLabel bool     `json:"templates_have_labels"`
	TmplNS    string   `json:"template_namespace,omitempty"`
	FailClaim int      `json:"fail_claim_create"` // index of the claim create that fails, -1 none
	Existing  bool     `json:"claims_exist_in_cache"`
	Failure   string   `json:"failure,omitempty"`
	Writes    []string `json:"writes,omitempty"`
}

func c06Set(c *c06Case) *apps.StatefulSet {
	set := newStatefulSet(3)
	set.Name = c.SetName
	set.UID = types.UID("uid-" + c.SetName)
	set.Spec.ServiceName = "governing"
	set.Spec.VolumeClaimTemplates = nil
	for _, t := range c.Templates {
		pvc := v1.PersistentVolumeClaim{ObjectMeta: metav1.ObjectMeta{Name: t}}
		if c.TmplLabel {
			pvc.Labels = map[string]string{"own": "label"}
		}
		pvc.Namespace = c.TmplNS
		set.Spec.VolumeClaimTemplates = append(set.Spec.VolumeClaimTemplates, pvc)
	}
	set.Spec.Template.Spec.Volumes = []v1.Volume{{Name: "scratch", VolumeSource: v1.VolumeSource{EmptyDir: &v1.EmptyDirVolumeSource{}}}}
	return set
}

func c06Judge(c *c06Case) string {
	set := c06Set(c)
	pod := newVersionedStatefulSetPod(set, set, "cur-rev", "upd-rev", c.Ordinal)
	want := fmt.Sprintf("%s-%d", set.Name, c.Ordinal)
	if pod.Name != want {
		return fmt.Sprintf("pod for ordinal %d is named %q, not %q", c.Ordinal, pod.Name, want)
	}
	if pod.Namespace != set.Namespace {
		return "pod is not in the set's namespace"
	}
	if pod.Spec.Hostname != want {
		return fmt.Sprintf("hostname is %q, not %q", pod.Spec.Hostname, want)
	}
	if pod.Spec.Subdomain != set.Spec.ServiceName {
		return fmt.Sprintf("subdomain is %q, not the governing service %q", pod.Spec.Subdomain, set.Spec.ServiceName)
	}
	if pod.Labels[apps.StatefulSetPodNameLabel] != want {
		return "pod-name label missing or wrong"
	}
	if pod.Labels["controller-revision-hash"] == "" {
		return "revision label missing"
	}
	ref := metav1.GetControllerOf(pod)
	if ref == nil || ref.UID != set.UID || ref.Name != set.Name || ref.Kind != "StatefulSet" {
		return "no controlling owner reference to the set by UID"
	}
	for _, t := range c.Templates {
		claim := fmt.Sprintf("%s-%s-%d", t, set.Name, c.Ordinal)
		ok := false
		for _, v := range pod.Spec.Volumes {
			if v.Name == t && v.PersistentVolumeClaim != nil && v.PersistentVolumeClaim.ClaimName == claim {
				ok = true
			}
		}
		if !ok {
			return fmt.Sprintf("no volume %q bound to claim %q", t, claim)
		}
	}
	// the real pod control: order of writes, claim failures
	var objs []runtime.Object
	indexer := cache.NewIndexer(cache.MetaNamespaceKeyFunc, cache.Indexers{cache.NamespaceIndex: cache.MetaNamespaceIndexFunc})
	if c.Existing {
		for _, t := range c.Templates {
			pvc := &v1.PersistentVolumeClaim{ObjectMeta: metav1.ObjectMeta{Name: fmt.Sprintf("%s-%s-%d", t, set.Name, c.Ordinal), Namespace: set.Namespace}}
			indexer.Add(pvc)
			objs = append(objs, pvc)
		}
	}
	client := fake.NewSimpleClientset(objs...)
	nClaim := 0
	client.PrependReactor("create", "persistentvolumeclaims", func(a core.Action) (bool, runtime.Object, error) {
		i := nClaim
		nClaim++
		if i == c.FailClaim {
			return true, nil, errors.New("injected claim failure")
		}
		return false, nil, nil
	})
	spc := NewRealStatefulPodControl(client, nil, nil, corelisters.NewPersistentVolumeClaimLister(indexer), &record.FakeRecorder{})
	err := spc.CreateStatefulPod(set, pod)
	claimWrites, podCreated, failedClaim := 0, false, false
	for _, a := range client.Actions() {
		res := a.GetResource().Resource
		c.Writes = append(c.Writes, a.GetVerb()+" "+res)
		switch {
		case res == "persistentvolumeclaims" && a.GetVerb() == "create":
			if podCreated {
				return "a claim was created after the pod create was issued"
			}
			claimWrites++
			pvc := a.(core.CreateAction).GetObject().(*v1.PersistentVolumeClaim)
			for k, v := range set.Spec.Selector.MatchLabels {
				if pvc.Labels[k] != v {
					return fmt.Sprintf("claim %s does not carry selector label %s", pvc.Name, k)
				}
			}
			if pvc.Namespace != set.Namespace {
				return "claim created outside the set's namespace"
			}
		case res == "persistentvolumeclaims" && a.GetVerb() != "get" && a.GetVerb() != "list":
			return "the controller issued " + a.GetVerb() + " on a claim"
		case res == "pods" && a.GetVerb() == "create":
			podCreated = true
		}
	}
	failedClaim = c.FailClaim >= 0 && c.FailClaim < nClaim
	if failedClaim && podCreated {
		return "a claim could not be created but the pod was created anyway"
	}
	if failedClaim && err == nil {
		return "a claim create failed but CreateStatefulPod reported success"
	}
	if !failedClaim && !podCreated {
		return fmt.Sprintf("no claim failed but the pod was not created (err=%v)", err)
	}
	if !c.Existing && !failedClaim && claimWrites != len(uniq(c.Templates)) {
		return fmt.Sprintf("%d claims created for %d templates before the pod", claimWrites, len(uniq(c.Templates)))
	}
	return ""
}

func uniq(s []string) map[string]bool {
	m := map[string]bool{}
	for _, x := range s {
		m[x] = true
	}
	return m
}

func TestReplayC06(t *testing.T) {
	found, tried := 0, 0
	seen := map[string]bool{}
	for _, name := range []string{"web", "db-1", "a-b-0", "web.v1"} {
		for _, ord := range []int{0, 1, 7, 12, 2147483647} {
			for _, tmpl := range [][]string{nil, {"data"}, {"data", "logs"}, {"a-1", "b", "c"}} {
				for _, lab := range []bool{false, true} {
					for _, tns := range []string{"", "elsewhere"} {
						for _, existing := range []bool{false, true} {
							for fail := -1; fail < len(tmpl); fail++ {
								if found >= 3 {
									break
								}
								tried++
								c := &c06Case{SetName: name, Ordinal: ord, Templates: tmpl, TmplLabel: lab, TmplNS: tns, FailClaim: fail, Existing: existing}
								msg := c06Judge(c)
								key := msg
								if len(key) > 20 {
									key = key[:20]
								}
								if msg == "" || seen[key] {
									continue
								}
								seen[key] = true
								c.Failure = msg
								out, _ := json.Marshal(c)
								fmt.Printf("REPRODUCED %s\n", out)
								found++
							}
						}
					}
				}
			}
		}
	}
	if found == 0 {
		fmt.Printf("NOT-REPRODUCED bounded search: %d runs (4 set names x 5 ordinals x 4 template lists x labels x template namespace x cached claims x a failure at each claim create)\n", tried)
	}
}
