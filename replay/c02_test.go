package statefulset

// Replay harness for property C02 (quiescence half: at a fixed point a reconcile issues no
// write), injected with `go test -overlay`.  Run only after a C02 obligation failed: builds
// small settled clusters (every desired ordinal occupied by a Running, Ready pod at the
// revision its ordinal calls for, status up to date) for a few specs and runs ONE real
// UpdateStatefulSet with recording pod control, status updater and a fake clientset.
// Bounded; never counted as proof, and says nothing about convergence.

import (
	"context"
	"encoding/json"
	"fmt"
	"testing"

	apps "github.com/pingcap/advanced-statefulset/client/apis/apps/v1"
	"github.com/pingcap/advanced-statefulset/client/apis/apps/v1/helper"
	v1 "k8s.io/api/core/v1"
	metav1 "k8s.io/apimachinery/pkg/apis/meta/v1"
	"k8s.io/apimachinery/pkg/util/sets"
	"k8s.io/client-go/kubernetes/fake"
	"k8s.io/client-go/tools/record"
)

type c02Case struct {
	Replicas      int32    `json:"replicas"`
	Slots         []int32  `json:"delete_slots"`
	Policy        string   `json:"pod_management_policy"`
	Strategy      string   `json:"update_strategy"`
	Partition     int32    `json:"partition"`
	Templates     int      `json:"claim_templates"`
	ServiceEdited bool     `json:"service_name_edited_after_pods_were_built"`
	Collisions    int32    `json:"status_collision_count"` // the set has since seen this many revision-name collisions (its revision was named under count 0)
	Failure       string   `json:"failure,omitempty"`
	Writes        []string `json:"writes,omitempty"`
}

type c02PodControl struct{ log *[]string }

func (c c02PodControl) CreateStatefulPod(set *apps.StatefulSet, pod *v1.Pod) error {
	*c.log = append(*c.log, "create pod "+pod.Name)
	return nil
}
func (c c02PodControl) UpdateStatefulPod(set *apps.StatefulSet, pod *v1.Pod) error {
	*c.log = append(*c.log, "update pod "+pod.Name)
	return nil
}
func (c c02PodControl) DeleteStatefulPod(set *apps.StatefulSet, pod *v1.Pod) error {
	*c.log = append(*c.log, "delete pod "+pod.Name)
	return nil
}

type c02Status struct {
	log  *[]string
	last **apps.StatefulSetStatus
}

func (c c02Status) UpdateStatefulSetStatus(set *apps.StatefulSet, status *apps.StatefulSetStatus) error {
	*c.log = append(*c.log, "update status")
	cp := status.DeepCopy()
	*c.last = cp // the API server stores it; the harness hands it back to the next reconcile
	return nil
}

func c02Judge(c *c02Case) string {
	set := newStatefulSet(int(c.Replicas))
	set.Generation = 1
	set.Spec.PodManagementPolicy = apps.PodManagementPolicyType(c.Policy)
	set.Spec.UpdateStrategy.Type = apps.StatefulSetUpdateStrategyType(c.Strategy)
	if c.Strategy == "RollingUpdate" {
		p := c.Partition
		set.Spec.UpdateStrategy.RollingUpdate = &apps.RollingUpdateStatefulSetStrategy{Partition: &p}
	}
	set.Spec.VolumeClaimTemplates = set.Spec.VolumeClaimTemplates[:0]
	for i := 0; i < c.Templates; i++ {
		set.Spec.VolumeClaimTemplates = append(set.Spec.VolumeClaimTemplates, v1.PersistentVolumeClaim{ObjectMeta: metav1.ObjectMeta{Name: fmt.Sprintf("vol%d", i)}})
	}
	set.Spec.Template.Spec.Volumes = nil
	helper.SetDeleteSlots(set, sets.NewInt32(c.Slots...))
	client := fake.NewSimpleClientset()
	var log []string
	var last *apps.StatefulSetStatus
	ssc := &defaultStatefulSetControl{podControl: c02PodControl{&log}, statusUpdater: c02Status{&log, &last}, csAppsV1: client.AppsV1(), recorder: &record.FakeRecorder{}}
	// first reconciles (on an empty cluster) create the revision; then build the settled population by hand
	if err := ssc.UpdateStatefulSet(set, nil); err != nil {
		return ""
	}
	if last != nil {
		set.Status = *last
	}
	revs, err := ssc.ListRevisions(set)
	if err != nil || len(revs) != 1 {
		return ""
	}
	rev := revs[0].Name
	if c.Collisions > 0 {
		cc := c.Collisions
		set.Status.CollisionCount = &cc
	}
	var pods []*v1.Pod
	for _, o := range helper.GetPodOrdinals(c.Replicas, set).List() {
		p := newVersionedStatefulSetPod(set, set, rev, rev, int(o))
		p.Status.Phase = v1.PodRunning
		p.Status.Conditions = []v1.PodCondition{{Type: v1.PodReady, Status: v1.ConditionTrue}}
		pods = append(pods, p)
	}
	if c.ServiceEdited {
		// the governing service name is not part of the revision: editing it must not make settled pods "non-matching"
		set.Spec.ServiceName = "edited"
	}
	// let the status settle (at most two reconciles write it), then demand silence
	for i := 0; i < 3; i++ {
		if err := ssc.UpdateStatefulSet(set, pods); err != nil {
			return ""
		}
		if last != nil {
			set.Status = *last
		}
	}
	for _, w := range log {
		if w != "update status" && len(w) > 6 && w[:6] != "create" {
			return "while settling: " + w
		}
	}
	if set.Status.Replicas != c.Replicas || set.Status.ReadyReplicas != c.Replicas {
		return fmt.Sprintf("at the fixed point status.replicas=%d readyReplicas=%d, spec.replicas=%d", set.Status.Replicas, set.Status.ReadyReplicas, c.Replicas)
	}
	log = nil
	client.ClearActions()
	if err := ssc.UpdateStatefulSet(set, pods); err != nil {
		return fmt.Sprintf("reconcile at the fixed point failed: %v", err)
	}
	for _, a := range client.Actions() {
		switch a.GetVerb() {
		case "create", "update", "patch", "delete":
			log = append(log, a.GetVerb()+" "+a.GetResource().Resource)
		}
	}
	c.Writes = log
	if len(log) > 0 {
		return fmt.Sprintf("a reconcile at the fixed point issued %d write(s): %v", len(log), log)
	}
	_ = context.TODO
	// progress: the user edits the template once; with a kubelet that makes every pod the controller leaves in place
	// Running and Ready, finitely many reconciles must bring every pod at or above the partition to the new revision
	if c.Strategy != "RollingUpdate" {
		return ""
	}
	set.Spec.Template.Spec.Containers[0].Image = "edited"
	set.Generation++
	live := map[string]*v1.Pod{}
	for _, p := range pods {
		live[p.Name] = p
	}
	world := &c02World{live: live}
	ssc.podControl = world
	quietRounds := 0
	for round := 0; round < 40 && quietRounds < 2; round++ {
		var cur []*v1.Pod
		for _, p := range world.live {
			cur = append(cur, p)
		}
		world.calls = 0
		if err := ssc.UpdateStatefulSet(set, cur); err != nil {
			return fmt.Sprintf("reconcile during the rollout failed: %v", err)
		}
		if last != nil {
			set.Status = *last
		}
		for _, p := range world.live { // kubelet progress
			p.Status.Phase = v1.PodRunning
			p.Status.Conditions = []v1.PodCondition{{Type: v1.PodReady, Status: v1.ConditionTrue}}
		}
		if world.calls == 0 {
			quietRounds++
		} else {
			quietRounds = 0
		}
	}
	if quietRounds < 2 {
		return "the rollout did not go quiet within 40 reconciles"
	}
	for _, o := range helper.GetPodOrdinals(c.Replicas, set).List() {
		p := world.live[fmt.Sprintf("%s-%d", set.Name, o)]
		if p == nil {
			return fmt.Sprintf("after the rollout went quiet desired ordinal %d has no pod", o)
		}
		if int32(o) >= c.Partition && p.Spec.Containers[0].Image != "edited" {
			return fmt.Sprintf("the rollout went quiet but pod %s (ordinal %d >= partition %d) still runs the old template", p.Name, o, c.Partition)
		}
	}
	return ""
}

// c02World is a pod control that applies creates and deletes to a pod population.
type c02World struct {
	live  map[string]*v1.Pod
	calls int
}

func (w *c02World) CreateStatefulPod(set *apps.StatefulSet, pod *v1.Pod) error {
	w.calls++
	w.live[pod.Name] = pod.DeepCopy()
	return nil
}
func (w *c02World) UpdateStatefulPod(set *apps.StatefulSet, pod *v1.Pod) error {
	w.calls++
	return nil
}
func (w *c02World) DeleteStatefulPod(set *apps.StatefulSet, pod *v1.Pod) error {
	w.calls++
	delete(w.live, pod.Name)
	return nil
}

func TestReplayC02(t *testing.T) {
	found, tried := 0, 0
	seen := map[string]bool{}
	for _, r := range []int32{0, 1, 3} {
		for _, slots := range [][]int32{nil, {1}, {0, 2}, {7}} {
			for _, pol := range []string{"OrderedReady", "Parallel"} {
				for _, st := range [][2]interface{}{{"RollingUpdate", int32(0)}, {"RollingUpdate", int32(2)}, {"OnDelete", int32(0)}} {
					for _, tm := range []int{0, 2, 3} {
						if found >= 3 {
							break
						}
						tried++
						c := &c02Case{Replicas: r, Slots: slots, Policy: pol, Strategy: st[0].(string), Partition: st[1].(int32), Templates: tm % 3, ServiceEdited: tm == 3}
						msg := c02Judge(c)
						if msg == "" {
							c = &c02Case{Replicas: r, Slots: slots, Policy: pol, Strategy: st[0].(string), Partition: st[1].(int32), Templates: tm % 3, Collisions: 1}
							msg = c02Judge(c)
						}
						key := msg
						if len(key) > 24 {
							key = key[:24]
						}
						if msg == "" || seen[key] {
							continue
						}
						seen[key] = true
						c.Failure = msg
						out, _ := json.Marshal(c)
						fmt.Printf("REPRODUCED %s\n", out)
						found++
					}
				}
			}
		}
	}
	if found == 0 {
		fmt.Printf("NOT-REPRODUCED bounded search: %d settled clusters (replicas x delete slots x policy x strategy/partition x claim templates), one reconcile each, then one template edit rolled out to quiescence\n", tried)
	}
}
