package statefulset

// Replay harness for property C08 (update revision mirrors the template), injected with
// `go test -overlay`.  Run only after a C08 obligation failed: a bounded search over short
// histories of template edits, rollbacks, non-template edits and engineered name collisions
// on the REAL getStatefulSetRevisions with the fake clientset.  Bounded; never counted as proof.

import (
	"bytes"
	"context"
	"encoding/json"
	"fmt"
	"testing"

	"github.com/pingcap/advanced-statefulset/client/apis/apps/v1/helper"
	kubeapps "k8s.io/api/apps/v1"
	apiequality "k8s.io/apimachinery/pkg/api/equality"
	metav1 "k8s.io/apimachinery/pkg/apis/meta/v1"
	"k8s.io/apimachinery/pkg/util/sets"
	"k8s.io/client-go/kubernetes/fake"
	core "k8s.io/client-go/testing"
)

type c08Case struct {
	Steps   []string `json:"steps"` // image:<x> | replicas:<n> | slots | pause | label | collide
	Failure string   `json:"failure,omitempty"`
	Log     []string `json:"log,omitempty"`
}

func c08Judge(c *c08Case) string {
	set := newStatefulSet(3)
	client := fake.NewSimpleClientset()
	ssc := &defaultStatefulSetControl{csAppsV1: client.AppsV1()}
	list := func() []*kubeapps.ControllerRevision {
		l, _ := client.AppsV1().ControllerRevisions(set.Namespace).List(context.TODO(), metav1.ListOptions{})
		var out []*kubeapps.ControllerRevision
		for i := range l.Items {
			out = append(out, &l.Items[i])
		}
		return out
	}
	lastUpdate := ""
	lastTemplateStep := ""
	for si, step := range c.Steps {
		templateEdit := false
		var collided *kubeapps.ControllerRevision
		switch {
		case len(step) > 6 && step[:6] == "image:":
			set.Spec.Template.Spec.Containers[0].Image = step[6:]
			templateEdit = lastTemplateStep != step
			lastTemplateStep = step
		case len(step) > 9 && step[:9] == "replicas:":
			var n int32
			fmt.Sscanf(step[9:], "%d", &n)
			set.Spec.Replicas = &n
		case step == "slots":
			helper.SetDeleteSlots(set, sets.NewInt32(1))
		case step == "pause":
			helper.SetPausedReconcile(set, true)
		case step == "label":
			if set.Labels == nil {
				set.Labels = map[string]string{}
			}
			set.Labels[fmt.Sprintf("l%d", si)] = "x"
		case step == "collide":
			// engineer a revision with the name the next create will pick, but different data
			set.Spec.Template.Spec.Containers[0].Image = fmt.Sprintf("collide-%d", si)
			templateEdit = true
			lastTemplateStep = step
			var cc int32
			if set.Status.CollisionCount != nil {
				cc = *set.Status.CollisionCount
			}
			probe, err := newRevision(set, 99, &cc)
			if err != nil {
				return ""
			}
			collided = probe.DeepCopy()
			collided.Name = controllerRevisionName(set.Name, hashControllerRevision(probe, &cc))
			collided.Data.Raw = []byte(`{"spec":{"template":{"$patch":"replace","other":true}}}`)
			collided.Revision = 1000 + int64(si)
			collided.Namespace = set.Namespace
			if _, err := client.AppsV1().ControllerRevisions(set.Namespace).Create(context.TODO(), collided, metav1.CreateOptions{}); err != nil {
				return ""
			}
		}
		before := list()
		client.ClearActions()
		cur, upd, cc, err := ssc.getStatefulSetRevisions(set, before)
		if err != nil {
			return fmt.Sprintf("step %d (%s): getStatefulSetRevisions failed although no API call failed: %v", si, step, err)
		}
		_ = cur
		set.Status.CollisionCount = &cc
		creates := 0
		for _, a := range client.Actions() {
			if a.GetVerb() == "create" {
				creates++
			}
			if collided != nil {
				if n, ok := a.(interface{ GetName() string }); ok && n.GetName() == collided.Name && (a.GetVerb() == "update" || a.GetVerb() == "patch" || a.GetVerb() == "delete") {
					return fmt.Sprintf("step %d: the colliding revision %s was overwritten (%s)", si, collided.Name, a.GetVerb())
				}
				if ua, ok := a.(core.UpdateAction); ok && a.GetVerb() == "update" {
					if m, ok := ua.GetObject().(metav1.Object); ok && m.GetName() == collided.Name {
						return fmt.Sprintf("step %d: the colliding revision %s was overwritten (update)", si, collided.Name)
					}
				}
			}
		}
		c.Log = append(c.Log, fmt.Sprintf("%s -> update=%s rev=%d creates=%d", step, upd.Name, upd.Revision, creates))
		want, err := getPatch(set)
		if err != nil {
			return ""
		}
		if !bytes.Equal(upd.Data.Raw, want) {
			return fmt.Sprintf("step %d (%s): the update revision's data is not the patch of the set's template", si, step)
		}
		stored, gerr := client.AppsV1().ControllerRevisions(set.Namespace).Get(context.TODO(), upd.Name, metav1.GetOptions{})
		if gerr != nil {
			return fmt.Sprintf("step %d (%s): the update revision %s is not stored", si, step, upd.Name)
		}
		if !bytes.Equal(stored.Data.Raw, want) {
			return fmt.Sprintf("step %d (%s): stored revision %s does not carry the template's patch", si, step, upd.Name)
		}
		restored, err := ApplyRevision(set, stored)
		if err != nil || !apiequality.Semantic.DeepEqual(restored.Spec.Template, set.Spec.Template) {
			return fmt.Sprintf("step %d (%s): applying the update revision does not reproduce the pod template", si, step)
		}
		if !templateEdit && lastUpdate != "" {
			if upd.Name != lastUpdate {
				return fmt.Sprintf("step %d (%s): a non-template edit changed the update revision %s -> %s", si, step, lastUpdate, upd.Name)
			}
			if creates != 0 {
				return fmt.Sprintf("step %d (%s): a revision was created although the template did not change", si, step)
			}
		}
		for _, r := range list() {
			if r.Name != upd.Name && r.Revision >= upd.Revision && (collided == nil || r.Name != collided.Name) && r.Revision < 1000 {
				return fmt.Sprintf("step %d (%s): update revision %s (%d) is not numbered above %s (%d)", si, step, upd.Name, upd.Revision, r.Name, r.Revision)
			}
		}
		lastUpdate = upd.Name
	}
	return ""
}

func TestReplayC08(t *testing.T) {
	alphabet := []string{"image:a", "image:b", "replicas:5", "slots", "pause", "label", "collide"}
	var seqs [][]string
	for _, a := range alphabet {
		for _, b := range alphabet {
			seqs = append(seqs, []string{"image:a", a, b})
			for _, d := range []string{"image:a", "image:b", "replicas:1"} {
				seqs = append(seqs, []string{"image:a", a, b, d})
			}
		}
	}
	found := 0
	seen := map[string]bool{}
	for _, s := range seqs {
		if found >= 3 {
			break
		}
		c := &c08Case{Steps: s}
		msg := c08Judge(c)
		key := msg
		if len(key) > 12 {
			key = key[len(key)-12:]
		}
		if msg == "" || seen[key] {
			continue
		}
		seen[key] = true
		c.Failure = msg
		out, _ := json.Marshal(c)
		fmt.Printf("REPRODUCED %s\n", out)
		found++
	}
	if found == 0 {
		fmt.Printf("NOT-REPRODUCED bounded search: %d edit histories of length 3-4 over template edits, rollbacks, scaling/annotation/label edits and engineered name collisions\n", len(seqs))
	}
}
