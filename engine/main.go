package main

import (
	"os/exec"
	"encoding/json"
	"go/ast"
	"flag"
	"fmt"
	"os"
	"path/filepath"
	"sort"
	"strconv"
	"strings"
	"time"
)

type UnitSpec struct {
	Pkg      string   `json:"pkg"`
	Funcs    []string `json:"funcs"`
	Profiles []string `json:"profiles,omitempty"`
}

type PropSpec struct {
	ID          string     `json:"id"`
	Units       []UnitSpec `json:"units"`
	Lemmas      []string   `json:"lemmas,omitempty"`
	Kinds       []string   `json:"extra_kinds,omitempty"` // untagged obligation kinds that count for this property besides the defaults
	Safety      bool       `json:"safety,omitempty"`      // count the zero-annotation safety obligations
	Assumptions []string   `json:"assumptions,omitempty"`
	Bounded     []string   `json:"bounded,omitempty"`
	Trusted     []string   `json:"trusted_base,omitempty"`
	Level       string     `json:"level,omitempty"`
	Replay      *ReplaySpec `json:"replay,omitempty"`
	ReplayMore  []ReplaySpec `json:"replay_more,omitempty"` // further harnesses tried when the first one finds nothing
	Conformance []ReplaySpec `json:"conformance,omitempty"` // thorough tier: bounded runs of assumed library contracts
}

type KnownFinding struct {
	Kind       string `json:"kind"` // finding | fixed
	Property   string `json:"property"`
	Obligation string `json:"obligation"`
	Witness    string `json:"witness"`
	Commit     string `json:"commit,omitempty"`
	Replay     string `json:"replay,omitempty"`
}

var safetyKinds = map[string]bool{"nil": true, "bounds": true, "typeassert": true, "panic": true, "makelen": true,
	"divzero": true, "nilmap": true, "overflow": true, "conv": true}

func main() {
	if len(os.Args) < 2 {
		fmt.Fprintln(os.Stderr, "usage: vcheck check|dump|list ...")
		os.Exit(2)
	}
	switch os.Args[1] {
	case "check":
		os.Exit(cmdCheck(os.Args[2:]))
	case "dump":
		os.Exit(cmdDump(os.Args[2:]))
	case "replay":
		os.Exit(cmdReplay(os.Args[2:]))
	default:
		fmt.Fprintln(os.Stderr, "unknown command", os.Args[1])
		os.Exit(2)
	}
}

func loadProps(verif string) (map[string]*PropSpec, error) {
	data, err := os.ReadFile(filepath.Join(verif, "props.json"))
	if err != nil {
		return nil, err
	}
	var list []*PropSpec
	if err := json.Unmarshal(data, &list); err != nil {
		return nil, fmt.Errorf("props.json: %v", err)
	}
	m := map[string]*PropSpec{}
	for _, p := range list {
		m[p.ID] = p
	}
	return m, nil
}

func (e *Engine) prepareAxioms() (err error) {
	defer func() {
		if r := recover(); r != nil {
			if se, ok := r.(specErr); ok {
				err = fmt.Errorf("axiom/lemma evaluation: %s", string(se))
				return
			}
			panic(r)
		}
	}()
	st := &State{ghost: map[string]*Value{}, heap: map[string][]string{}, alloc: "0"}
	for _, ax := range e.axioms {
		env := &SpecEnv{e: e, st: st, cf: ax.CF, pkg: e.pkgForCF(ax.CF)}
		e.axiomTerms = append(e.axiomTerms, axiomTerm{name: ax.Name, term: env.evalBool(ax.Expr), src: ax.Src, only: strings.Join(ax.Tags, ",")})
		e.assumed["axiom "+ax.Name+": "+ax.Src] = true
	}
	return nil
}

// lemmaObligations builds the proof obligations of a lemma (direct, or base
// and step of an induction) and returns the lemma as an axiom term.
func (e *Engine) lemmaObligations(l *Lemma) (obls []*Obligation, asAxiom axiomTerm, err error) {
	defer func() {
		if r := recover(); r != nil {
			if se, ok := r.(specErr); ok {
				err = fmt.Errorf("lemma %s: %s", l.Name, string(se))
				return
			}
			panic(r)
		}
	}()
	st := &State{ghost: map[string]*Value{}, heap: map[string][]string{}, alloc: "0"}
	env := &SpecEnv{e: e, st: st, cf: l.CF, pkg: e.pkgForCF(l.CF)}
	asAxiom = axiomTerm{name: "lemma " + l.Name, term: env.evalBool(l.Expr), src: l.Src}
	mk := func(kind string, goal string) *Obligation {
		return &Obligation{Name: "lemma." + l.Name + "/" + kind, Kind: kind, Func: "lemma." + l.Name, Goal: goal, Src: l.Src}
	}
	if l.IndVar == "" {
		obls = append(obls, mk("lemma", asAxiom.term))
		return
	}
	q, ok := l.Expr.(*SQuant)
	if !ok || !q.Forall {
		return nil, asAxiom, fmt.Errorf("lemma %s: induction needs a top-level forall", l.Name)
	}
	var others []SBinder
	var iv *SBinder
	for i := range q.Vars {
		if q.Vars[i].Name == l.IndVar {
			iv = &q.Vars[i]
		} else {
			others = append(others, q.Vars[i])
		}
	}
	if iv == nil {
		return nil, asAxiom, fmt.Errorf("lemma %s: induction variable %s is not bound", l.Name, l.IndVar)
	}
	// the base expression may mention other bound variables; those stay fixed
	fixed := map[string]bool{}
	collectIdents(l.IndFrom, fixed)
	var gen, fix []SBinder
	for _, b := range others {
		if fixed[b.Name] {
			fix = append(fix, b)
		} else {
			gen = append(gen, b)
		}
	}
	wrap := func(vars []SBinder, body SExpr) SExpr {
		if len(vars) == 0 {
			return body
		}
		return &SQuant{Forall: true, Vars: vars, Body: body}
	}
	// base: forall others :: body[iv := from]   (only meaningful when the body is guarded by iv >= from)
	base := wrap(others, substIdent(q.Body, l.IndVar, l.IndFrom))
	obls = append(obls, mk("lemma-base", env.evalBool(base)))
	// step: forall fix, iv :: iv > from && (forall gen :: body[iv-1]) ==> forall gen :: body
	ih := wrap(gen, substIdent(q.Body, l.IndVar, &SBinary{"-", &SIdent{l.IndVar}, &SInt{"1"}}))
	step := wrap(append(append([]SBinder{}, fix...), *iv), &SBinary{"==>",
		&SBinary{"&&", &SBinary{">", &SIdent{l.IndVar}, l.IndFrom}, ih}, wrap(gen, q.Body)})
	obls = append(obls, mk("lemma-step", env.evalBool(step)))
	// below the base the statement must hold directly (usually vacuously)
	below := wrap(q.Vars, &SBinary{"==>", &SBinary{"<", &SIdent{l.IndVar}, l.IndFrom}, q.Body})
	obls = append(obls, mk("lemma-below", env.evalBool(below)))
	return
}

func collectIdents(x SExpr, into map[string]bool) {
	switch n := x.(type) {
	case *SIdent:
		into[n.Name] = true
	case *SUnary:
		collectIdents(n.X, into)
	case *SBinary:
		collectIdents(n.L, into)
		collectIdents(n.R, into)
	case *SCall:
		for _, a := range n.Args {
			collectIdents(a, into)
		}
	case *SSel:
		collectIdents(n.X, into)
	case *SIndex:
		collectIdents(n.X, into)
		collectIdents(n.I, into)
	case *SQuant:
		collectIdents(n.Body, into)
	}
}

func substIdent(x SExpr, name string, by SExpr) SExpr {
	switch n := x.(type) {
	case *SIdent:
		if n.Name == name {
			return by
		}
		return n
	case *SUnary:
		return &SUnary{n.Op, substIdent(n.X, name, by)}
	case *SBinary:
		return &SBinary{n.Op, substIdent(n.L, name, by), substIdent(n.R, name, by)}
	case *SCall:
		args := make([]SExpr, len(n.Args))
		for i, a := range n.Args {
			args[i] = substIdent(a, name, by)
		}
		return &SCall{substIdent(n.Fun, name, by), args}
	case *SSel:
		return &SSel{substIdent(n.X, name, by), n.Name}
	case *SIndex:
		return &SIndex{substIdent(n.X, name, by), substIdent(n.I, name, by)}
	case *SQuant:
		for _, b := range n.Vars {
			if b.Name == name {
				return n
			}
		}
		var trigs [][]SExpr
		for _, tr := range n.Triggers {
			var ts []SExpr
			for _, t := range tr {
				ts = append(ts, substIdent(t, name, by))
			}
			trigs = append(trigs, ts)
		}
		return &SQuant{n.Forall, n.Vars, trigs, substIdent(n.Body, name, by)}
	}
	return x
}

type runResult struct {
	obls        []*Obligation
	failed      []*Obligation
	translateErr []string
	lemmaNames  []string
}

func hasTag(tags []string, id string) bool {
	for _, t := range tags {
		if t == id {
			return true
		}
	}
	return false
}

func cmdCheck(args []string) int {
	fs := flag.NewFlagSet("check", flag.ExitOnError)
	prop := fs.String("property", "", "property id")
	tier := fs.String("tier", "quick", "quick|thorough")
	repo := fs.String("repo", "/repo", "repository root")
	verif := fs.String("verif", "/verif", "verification root")
	keep := fs.Bool("keep", false, "keep all SMT files")
	discard := fs.Bool("discard-queries", false, "remove the SMT query directory even when obligations failed (used by the selftest corpus)")
	verbose := fs.Bool("v", false, "verbose")
	noEvidence := fs.Bool("no-evidence", false, "do not write the evidence file")
	writeBaseline := fs.Bool("write-baseline", false, "maintenance: record the generated obligation names of this property in baseline_obligations.json")
	fs.Parse(args)
	if t := os.Getenv("VERIF_TIER"); t != "" && (t == "quick" || t == "thorough") {
		*tier = t
	}
	seed := 0
	if s := os.Getenv("VERIF_SEED"); s != "" {
		seed, _ = strconv.Atoi(s)
	}
	start := time.Now()
	props, err := loadProps(*verif)
	if err != nil {
		fmt.Fprintln(os.Stderr, "error:", err)
		return 2
	}
	ps, ok := props[*prop]
	if !ok {
		fmt.Fprintln(os.Stderr, "unknown property", *prop)
		return 2
	}
	e := newEngine()
	var unitPkgs []string
	for _, u := range ps.Units {
		unitPkgs = append(unitPkgs, u.Pkg)
	}
	if err := e.load(*repo, *verif, pkgsFor(unitPkgs...)); err != nil {
		// a tree that does not load cannot be judged: report as an engine fault, not a violation
		fmt.Fprintln(os.Stderr, "load error:", err)
		return 2
	}
	if err := e.prepareAxioms(); err != nil {
		fmt.Fprintln(os.Stderr, "error:", err)
		return 2
	}
	if data, err := os.ReadFile(filepath.Join(*verif, "baseline_locals.json")); err == nil {
		json.Unmarshal(data, &e.baseLocals)
	}
	res := &runResult{}
	// lemmas
	lemmaAx := map[string]axiomTerm{}
	var lemmaObls []*Obligation
	lemmaUses := map[string][]string{}
	for _, l := range e.lemmas {
		obls, ax, err := e.lemmaObligations(l)
		if err != nil {
			fmt.Fprintln(os.Stderr, "error:", err)
			return 2
		}
		lemmaAx[l.Name] = ax
		lemmaUses[l.Name] = l.Uses
		wanted := false
		for _, n := range ps.Lemmas {
			if n == l.Name || n == "*" {
				wanted = true
			}
		}
		if wanted {
			lemmaObls = append(lemmaObls, obls...)
			res.lemmaNames = append(res.lemmaNames, l.Name)
		}
	}
	// functions
	var funcsUnderContract []map[string]interface{}
	generate := func() int {
		e.obls = nil
		e.funcFacts = nil
		res.translateErr = nil
		funcsUnderContract = nil
		for _, u := range ps.Units {
			pkg := e.pkgByShort(u.Pkg)
			if pkg == nil {
				fmt.Fprintln(os.Stderr, "error: unknown package", u.Pkg)
				return 2
			}
			profiles := u.Profiles
			if len(profiles) == 0 {
				profiles = []string{"default"}
			}
			for _, fname := range u.Funcs {
				decl := e.findFunc(pkg, fname)
				if decl == nil {
					res.translateErr = append(res.translateErr, fmt.Sprintf("%s.%s/missing: function not found in the working tree", u.Pkg, fname))
					continue
				}
				for _, prof := range profiles {
					before := len(e.obls)
					if err := e.verifyFunc(pkg, decl, prof); err != nil {
						res.translateErr = append(res.translateErr, err.Error())
						continue
					}
					src := exprTextFull(e, decl)
					funcsUnderContract = append(funcsUnderContract, map[string]interface{}{
						"func": u.Pkg + "." + fname, "profile": prof,
						"file":   strings.TrimPrefix(e.fset.Position(decl.Pos()).Filename, *repo+"/"),
						"sha256": hashText(src), "obligations_generated": len(e.obls) - before,
					})
				}
			}
		}
		return 0
	}
	// select the obligations that count for this property; aux: preconditions and ghost assertions that
	// belong to other properties only - they are not counted, but if one of them does not hold on this tree its
	// clause must not be assumed downstream (it would mask this property's obligations), see below
	pick := func() (selected, aux []*Obligation) {
		for _, o := range e.obls {
			switch {
			case hasTag(o.Tags, ps.ID):
				selected = append(selected, o)
			case len(o.Tags) > 0:
				if o.Kind == "pre" || o.Kind == "ghost-assert" {
					aux = append(aux, o)
				}
			case safetyKinds[o.Kind]:
				if ps.Safety {
					selected = append(selected, o)
				}
			default:
				selected = append(selected, o)
			}
		}
		return
	}
	if rc := generate(); rc != 0 {
		return rc
	}
	selected, aux := pick()
	selected = append(selected, lemmaObls...)
	// axioms available to an obligation
	allLemmaAx := []axiomTerm{}
	for _, l := range e.lemmas {
		allLemmaAx = append(allLemmaAx, lemmaAx[l.Name])
	}
	axiomsFor := func(o *Obligation) []axiomTerm {
		if strings.HasPrefix(o.Func, "lemma.") {
			name := strings.TrimPrefix(o.Func, "lemma.")
			out := e.axiomsOnly("lemma")
			for _, u := range lemmaUses[name] {
				out = append(out, lemmaAx[u])
			}
			return out
		}
		out := e.axiomsOnly("vc")
		for _, n := range e.funcLemmas[o.Func] {
			if ax, ok := lemmaAx[n]; ok {
				out = append(out, ax)
			}
		}
		_ = allLemmaAx
		return out
	}
	var retried []string
	opt := solveOpts{timeout: 30, seed: seed, outDir: filepath.Join(*verif, "out", fmt.Sprintf("%s-%s-%d", ps.ID, *tier, os.Getpid())),
		cacheDir: filepath.Join(*verif, ".cache"), useCache: true, workers: 5, replay: ps.Replay, replayMore: ps.ReplayMore, property: ps.ID}
	if os.Getenv("VERIF_NOCACHE") != "" {
		opt.useCache = false
	}
	if *tier == "thorough" {
		opt.timeout = 60
		opt.useCache = false
		opt.all = true
		opt.workers = 5
	}
	pruneOutDirs(filepath.Join(*verif, "out"))
	os.RemoveAll(opt.outDir)
	// solveWithRetry: a time-out is not an answer.  When a handful of obligations remain undecided (no solver said
	// sat) after the staged attempts, they are tried once more, alone, with twice the time: by then the bulk of this
	// run's queries is out of the way, so a machine that was busy - with this run or with others - gets a second
	// chance before anything is reported.  Costs time only when something is undecided.
	solveWithRetry := func(obls []*Obligation) {
		e.solveAll(obls, axiomsFor, opt)
		var again []*Obligation
		for _, o := range obls {
			if o.Result != "unsat" && o.Result != "sat" && o.Kind != "cover" {
				again = append(again, o)
			}
		}
		if len(again) == 0 || len(again) > 8 {
			return
		}
		o2 := opt
		o2.timeout = opt.timeout * 2
		o2.useCache = false
		if o2.workers > 2 {
			o2.workers = 2
		}
		prev := map[*Obligation]float64{}
		for _, o := range again {
			prev[o] = o.Seconds
		}
		e.solveAll(again, axiomsFor, o2)
		for _, o := range again {
			o.Seconds += prev[o]
			if o.Result == "unsat" {
				retried = append(retried, o.Name)
			}
		}
	}
	solveWithRetry(append(append([]*Obligation{}, selected...), aux...))
	// unmasking pass: a precondition or assertion of ANOTHER property that does not hold on this tree is not
	// reported here, but everything after it was proved under a false assumption.  Translate again without
	// assuming those clauses and judge this property's obligations on that.
	var unmasked []string
	for round := 0; round < 4; round++ {
		var newly []string
		for _, o := range aux {
			if o.Result != "unsat" && !e.noAssume[o.Name] {
				newly = append(newly, o.Name)
			}
		}
		if len(newly) == 0 {
			break
		}
		if e.noAssume == nil {
			e.noAssume = map[string]bool{}
		}
		for _, n := range newly {
			e.noAssume[n] = true
			// obligations generated several times (one per exit, per call site in a merged path) carry an
			// ordinal suffix added after translation; the clause is then not assumed at any of its occurrences
			if k := strings.LastIndex(n, "#"); k > 0 && strings.Trim(n[k+1:], "0123456789") == "" && !strings.HasSuffix(n[:k], ":") {
				e.noAssume[n[:k]] = true
			}
		}
		unmasked = append(unmasked, newly...)
		if rc := generate(); rc != 0 {
			return rc
		}
		selected, aux = pick()
		selected = append(selected, lemmaObls...)
		solveWithRetry(append(append([]*Obligation{}, selected...), aux...))
	}
	if len(retried) > 0 {
		fmt.Printf("note: %d obligation(s) were undecided within the first time limit and discharged on the second attempt: %s\n", len(retried), strings.Join(retried, ", "))
	}
	if len(unmasked) > 0 {
		fmt.Printf("note: %d clause(s) of other properties do not hold on this tree and were not assumed: %s\n", len(unmasked), strings.Join(unmasked, ", "))
	}
	// verdicts
	known := loadKnown(*verif)
	var violations, knownHit []string
	discharged := 0
	bySolver := map[string]map[string]float64{}
	var engineFault []string
	var covers, vacuous []*Obligation
	var nonCover []*Obligation
	for _, o := range selected {
		if o.Kind == "cover" {
			covers = append(covers, o)
			if o.Result == "unsat" {
				vacuous = append(vacuous, o)
			}
			continue
		}
		nonCover = append(nonCover, o)
	}
	selected = nonCover
	for _, o := range selected {
		switch o.Result {
		case "unsat":
			discharged++
			m := bySolver[o.Solver]
			if m == nil {
				m = map[string]float64{}
				bySolver[o.Solver] = m
			}
			m["won"]++
			m["total_s"] += o.Seconds
			if o.Seconds > m["max_s"] {
				m["max_s"] = o.Seconds
			}
		case "disagree":
			engineFault = append(engineFault, o.Name+": solvers disagree: "+o.Output)
		default:
			res.failed = append(res.failed, o)
		}
	}
	if *verbose {
		for _, o := range selected {
			fmt.Printf("  %-8s %-10s %6.2fs %s\n", o.Result, o.Solver, o.Seconds, o.Name)
		}
	}
	replayDir := filepath.Join(*verif, "replays", ps.ID)
	os.MkdirAll(replayDir, 0o755)
	report := func(name string, payload map[string]interface{}) string {
		path := filepath.Join(replayDir, sanitize(name)+".json")
		if len(path) > 220 {
			path = filepath.Join(replayDir, hashText(name)[:24]+".json")
		}
		data, _ := json.MarshalIndent(payload, "", " ")
		writeFileAtomic(path, data)
		return path
	}
	for _, o := range res.failed {
		if kf := matchKnown(known, ps.ID, o.Name); kf != nil {
			knownHit = append(knownHit, fmt.Sprintf("KNOWN-FINDING: property=%s %s (%s)", ps.ID, kf.Witness, o.Name))
			continue
		}
		payload := map[string]interface{}{
			"property": ps.ID, "obligation": o.Name, "kind": o.Kind, "clause": o.Src, "position": o.Pos,
			"solver_result": o.Result, "solver_output": o.Output, "smt_file": o.SMTPath,
			"note": "obligation not discharged on this tree; no concrete failing input was produced by the verifier",
		}
		suffix := " no-failing-input-found"
		if cex := e.tryCounterexample(o, axiomsFor(o), *repo, *verif, opt); cex != nil {
			payload["counterexample"] = cex.Inputs
			payload["replay_outcome"] = cex.Outcome
			payload["replay_log"] = cex.Log
			if cex.Reproduced {
				suffix = ""
				payload["note"] = "failing input found by the bounded search of the replay harness on the real code (see replay_log)"
			}
		}
		path := report(o.Name, payload)
		violations = append(violations, fmt.Sprintf("VIOLATION property=%s replay=%s%s", ps.ID, path, suffix))
	}
	for _, te := range res.translateErr {
		name := te
		if k := strings.Index(te, ":"); k > 0 {
			name = te[:k] + "/translate"
		}
		if kf := matchKnown(known, ps.ID, name); kf != nil {
			knownHit = append(knownHit, fmt.Sprintf("KNOWN-FINDING: property=%s %s", ps.ID, kf.Witness))
			continue
		}
		payload := map[string]interface{}{"property": ps.ID, "obligation": name, "kind": "translate",
			"solver_output": te, "note": "the function could not be brought under its contract on this tree (structure changed or construct outside the verified subset); the obligations it carried on the pinned tree are therefore not discharged"}
		suffix := " no-failing-input-found"
		if cex := e.tryCounterexample(&Obligation{Name: name}, nil, *repo, *verif, opt); cex != nil {
			payload["counterexample"] = cex.Inputs
			payload["replay_outcome"] = cex.Outcome
			payload["replay_log"] = cex.Log
			if cex.Reproduced {
				suffix = ""
				payload["note"] = "the function does not fit its contract on this tree, and the bounded search of the replay harness found a failing input on the real code (see replay_log)"
			}
		}
		path := report(name, payload)
		violations = append(violations, fmt.Sprintf("VIOLATION property=%s replay=%s%s", ps.ID, path, suffix))
	}
	// baseline: obligations that existed on the pinned tree must still be generated
	missing := checkBaseline(*verif, ps.ID, selected)
	for _, m := range missing {
		if kf := matchKnown(known, ps.ID, m); kf != nil {
			continue
		}
		path := report(m+"-missing", map[string]interface{}{"property": ps.ID, "obligation": m, "kind": "missing",
			"note": "this obligation was generated and discharged on the pinned tree but is not generated any more; the clause it checked is no longer being proved"})
		violations = append(violations, fmt.Sprintf("VIOLATION property=%s replay=%s no-failing-input-found", ps.ID, path))
	}
	if *writeBaseline && len(res.failed) == 0 && len(res.translateErr) == 0 {
		base := map[string][]string{}
		if data, err := os.ReadFile(filepath.Join(*verif, "baseline_obligations.json")); err == nil {
			json.Unmarshal(data, &base)
		}
		fam := map[string]bool{}
		for _, o := range selected {
			if hasTag(o.Tags, ps.ID) && (o.Kind == "ensures" || o.Kind == "pre" || o.Kind == "ghost-assert") || strings.HasPrefix(o.Kind, "lemma") {
				fam[obligationFamily(o.Name)] = true
			}
		}
		names := sortedStrings(fam)
		base[ps.ID] = names
		data, _ := json.MarshalIndent(base, "", " ")
		writeFileAtomic(filepath.Join(*verif, "baseline_obligations.json"), data)
		// the locals of the functions verified in this run (rename tolerance, see exec.go)
		all := map[string][]localEntry{}
		if data, err := os.ReadFile(filepath.Join(*verif, "baseline_locals.json")); err == nil {
			json.Unmarshal(data, &all)
		}
		for k, v := range e.curLocals {
			all[k] = v
		}
		ldata, _ := json.MarshalIndent(all, "", " ")
		writeFileAtomic(filepath.Join(*verif, "baseline_locals.json"), ldata)
	}
	if *writeBaseline && len(res.failed) == 0 && len(res.translateErr) == 0 {
		e.writeTrustedBaseline(*verif)
	}
	// trusted-code watch (see trusted.go): a trusted function this proof used has been edited since the baseline.
	// Its contract is an assumption the verifier cannot re-establish, so the bounded runs that back it are made
	// now, in either tier: the conformance tests of the assumed contracts and the property's replay harnesses on
	// the real code.  A reproduced failing input is a violation; a failed conformance test means the assumption
	// this property's proof rests on no longer holds for the edited code (reported, without a property-level input).
	var trustedNotes []string
	changed := e.trustedChanged(*verif)
	if *writeBaseline {
		changed = nil
	}
	if len(changed) > 0 {
		names := strings.Join(changed, ", ")
		found := false
		for i := range ps.Conformance {
			cs := &ps.Conformance[i]
			c := runReplay(cs, *repo, *verif, "", ps.ID, seed)
			if !strings.Contains(c.Log, "CONFORMANCE-OK") || strings.Contains(c.Log, "--- FAIL") || strings.Contains(c.Outcome, "harness exit") {
				name := "assumed-contract:" + cs.Run
				path := report(name, map[string]interface{}{"property": ps.ID, "obligation": name, "kind": "bounded-conformance",
					"trusted_functions_changed": changed, "replay_log": c.Log, "replay_outcome": c.Outcome,
					"note": "a trusted (unverified) function this property's proof uses was edited, and the bounded conformance run of the contract assumed for it now fails on the real code; the proof no longer stands"})
				violations = append(violations, fmt.Sprintf("VIOLATION property=%s replay=%s no-failing-input-found", ps.ID, path))
				found = true
			}
		}
		var harnesses []*ReplaySpec
		if ps.Replay != nil {
			harnesses = append(harnesses, ps.Replay)
		}
		for i := range ps.ReplayMore {
			harnesses = append(harnesses, &ps.ReplayMore[i])
		}
		for _, h := range harnesses {
			c := runReplay(h, *repo, *verif, "", ps.ID, seed)
			if c.Reproduced {
				name := "trusted-code:" + h.Run
				path := report(name, map[string]interface{}{"property": ps.ID, "obligation": name, "kind": "bounded-replay",
					"trusted_functions_changed": changed, "counterexample": c.Inputs, "replay_outcome": c.Outcome, "replay_log": c.Log,
					"note": "a trusted (unverified) function this property's proof uses was edited; the bounded search of the replay harness found an input on the real code that violates the property statement"})
				violations = append(violations, fmt.Sprintf("VIOLATION property=%s replay=%s", ps.ID, path))
				found = true
				break
			}
		}
		if !found {
			trustedNotes = append(trustedNotes, "trusted function(s) edited since the baseline: "+names+"; the contracts assumed for them were re-checked by bounded runs only (conformance tests and replay harnesses on this tree found nothing) - bounded, not proved")
			fmt.Println("note: " + trustedNotes[0])
		}
		ps.Bounded = append(ps.Bounded, trustedNotes...)
	}
	// thorough tier extras (bounded, labelled as such, never counted in obligations/discharged):
	//  (a) conformance runs of the assumed library contracts this property rests on,
	//  (b) the property's replay harness on THIS tree (it must find nothing when every obligation holds),
	//  (c) the must-fail corpus of the property: every stored property-breaking change must still be reported.
	// A failure of (a) or (c), or of (b) on a tree whose obligations all hold, means the machinery itself is
	// wrong: engine fault (exit 2), never a VIOLATION line.
	var boundedNotes []string
	if *tier == "thorough" && !*discard {
		for i := range ps.Conformance {
			cs := &ps.Conformance[i]
			c := runReplay(cs, *repo, *verif, "", ps.ID, seed)
			okLines := 0
			for _, ln := range strings.Split(c.Log, "\n") {
				if strings.HasPrefix(strings.TrimSpace(ln), "CONFORMANCE-OK") {
					okLines++
					boundedNotes = append(boundedNotes, "bounded conformance run: "+strings.TrimSpace(ln))
				}
			}
			if len(changed) > 0 {
				continue // already judged above, as a consequence of the edit of trusted code
			}
			if okLines == 0 || strings.Contains(c.Log, "--- FAIL") || strings.Contains(c.Outcome, "harness exit") {
				// the bounded run of an assumed contract passed on the pinned tree and fails on this one: the code the
				// contract is about was changed in a way the contract does not survive, and the proof of this property
				// rests on it.  Reported as a violation without a property-level input.
				name := "assumed-contract:" + cs.Run
				path := report(name, map[string]interface{}{"property": ps.ID, "obligation": name, "kind": "bounded-conformance",
					"replay_log": c.Log, "replay_outcome": c.Outcome,
					"note": "the bounded conformance run of a contract this property's proof assumes fails on this tree (it passes on the pinned tree); the proof no longer stands"})
				violations = append(violations, fmt.Sprintf("VIOLATION property=%s replay=%s no-failing-input-found", ps.ID, path))
			}
		}
		if ps.Replay != nil && len(res.failed) == 0 && len(res.translateErr) == 0 {
			c := runReplay(ps.Replay, *repo, *verif, "", ps.ID, seed)
			if c.Reproduced {
				// every obligation holds, yet the bounded search finds an input on the real code that violates the
				// property statement: the contracts have a hole there.  The input is real, so it is reported.
				name := "bounded:" + ps.Replay.Run
				path := report(name, map[string]interface{}{"property": ps.ID, "obligation": name, "kind": "bounded-replay",
					"counterexample": c.Inputs, "replay_outcome": c.Outcome, "replay_log": c.Log,
					"note": "every obligation is discharged, but the bounded search of the replay harness found an input on the real code that violates the property statement (a hole in the contracts, or unverified code)"})
				violations = append(violations, fmt.Sprintf("VIOLATION property=%s replay=%s", ps.ID, path))
			} else {
				for _, ln := range strings.Split(c.Log, "\n") {
					if strings.HasPrefix(strings.TrimSpace(ln), "NOT-REPRODUCED") {
						boundedNotes = append(boundedNotes, "bounded replay harness on this tree: "+strings.TrimSpace(ln))
					}
				}
			}
		}
		// the must-fail corpus is a statement about the machinery on a tree where this property holds: it is not run
		// once a violation has been found (the stored changes are diffs against a tree that is now different)
		if _, err := os.Stat(filepath.Join(*verif, "selftest", "mustfail")); err == nil && *repo == "/repo" && len(violations) == 0 && len(knownHit) == 0 {
			cmd := exec.Command("python3", filepath.Join(*verif, "tools", "selftest.py"), "--property", ps.ID, "--jobs", "4")
			cmd.Dir = *verif
			out, err := cmd.CombinedOutput()
			last := firstLines(lastLine(string(out)), 1)
			boundedNotes = append(boundedNotes, "must-fail corpus: "+last)
			if err != nil {
				engineFault = append(engineFault, "must-fail corpus: a stored property-breaking change is no longer reported:\n"+string(out))
			}
		}
		ps.Bounded = append(ps.Bounded, boundedNotes...)
	}
	wall := time.Since(start).Seconds()
	if !*noEvidence {
		writeEvidence(e, *verif, ps, *tier, seed, selected, discharged, bySolver, funcsUnderContract, res, violations, knownHit, wall)
	}
	if (!*keep && len(res.failed) == 0) || *discard {
		os.RemoveAll(opt.outDir)
	}
	for _, k := range knownHit {
		fmt.Println(k)
	}
	for _, o := range vacuous {
		if len(violations) > 0 {
			// an invariant or assertion that no longer holds on this tree can contradict what follows it (a loop
			// invariant that fails its step and the negated loop condition, say): the unreachable point is a
			// consequence of the reported violation, not a fault of the machinery
			fmt.Println("note: the assumptions at " + o.Name + " are contradictory on this tree (a consequence of the violated clause reported below)")
			continue
		}
		engineFault = append(engineFault, "vacuous contract: the assumptions at "+o.Name+" are contradictory (every obligation after this point would be discharged trivially)")
	}
	_ = covers
	if len(engineFault) > 0 {
		for _, f := range engineFault {
			fmt.Fprintln(os.Stderr, "ENGINE-FAULT:", f)
		}
		return 2
	}
	fmt.Printf("property %s tier %s: %d obligations, %d discharged, %d failed, %d translate errors, %.1fs\n",
		ps.ID, *tier, len(selected), discharged, len(res.failed), len(res.translateErr), wall)
	if len(violations) > 0 {
		for _, v := range violations {
			fmt.Println(v)
		}
		return 1
	}
	if len(selected) == 0 {
		fmt.Fprintln(os.Stderr, "ENGINE-FAULT: no obligations generated (vacuous check)")
		return 2
	}
	return 0
}

func exprTextFull(e *Engine, n ast.Node) string {
	p := e.fset.Position(n.Pos())
	q := e.fset.Position(n.End())
	data, err := os.ReadFile(p.Filename)
	if err != nil {
		return ""
	}
	if q.Offset > len(data) {
		q.Offset = len(data)
	}
	return string(data[p.Offset:q.Offset])
}

func loadKnown(verif string) []KnownFinding {
	data, err := os.ReadFile(filepath.Join(verif, "known_findings.json"))
	if err != nil {
		return nil
	}
	var k []KnownFinding
	json.Unmarshal(data, &k)
	return k
}

func matchKnown(known []KnownFinding, prop, obl string) *KnownFinding {
	for i := range known {
		k := &known[i]
		if k.Kind == "finding" && k.Property == prop && k.Obligation == obl {
			return k
		}
	}
	return nil
}

// obligationFamily strips call-site ordinals and exit numbers from an obligation
// name, so that adding or removing a call site or a return statement does not
// look like a vanished proof; only a clause that is no longer checked anywhere does.
func obligationFamily(name string) string {
	out := name
	if k := strings.Index(out, "@"); k >= 0 {
		out = out[:k]
	}
	for {
		k := strings.Index(out, "#")
		if k < 0 {
			break
		}
		j := k + 1
		for j < len(out) && out[j] >= '0' && out[j] <= '9' {
			j++
		}
		out = out[:k] + out[j:]
	}
	return out
}

// checkBaseline compares the clause families generated on this run with the committed
// list: a property-tagged clause that was proved on the pinned tree and is not generated
// at all any more is reported.
func checkBaseline(verif, prop string, selected []*Obligation) []string {
	data, err := os.ReadFile(filepath.Join(verif, "baseline_obligations.json"))
	if err != nil {
		return nil
	}
	var base map[string][]string
	if json.Unmarshal(data, &base) != nil {
		return nil
	}
	have := map[string]bool{}
	for _, o := range selected {
		have[obligationFamily(o.Name)] = true
	}
	var missing []string
	for _, n := range base[prop] {
		if !have[n] {
			missing = append(missing, n)
		}
	}
	sort.Strings(missing)
	return missing
}

func writeEvidence(e *Engine, verif string, ps *PropSpec, tier string, seed int, selected []*Obligation, discharged int,
	bySolver map[string]map[string]float64, funcs []map[string]interface{}, res *runResult, violations, knownHit []string, wall float64) {
	var samples []map[string]interface{}
	for i, o := range selected {
		if i%(len(selected)/8+1) == 0 || o.Result != "unsat" {
			samples = append(samples, map[string]interface{}{"obligation": o.Name, "clause": o.Src, "answer": o.Result,
				"solver": o.Solver, "seconds": o.Seconds, "smt_sha256": o.SMTHash, "cached": o.Cached})
		}
		if len(samples) >= 16 {
			break
		}
	}
	trusted := []string{"the VC generator of /verif/engine (translation of Go to verification conditions)", "z3 4.8.12", "z3 5.1.0", "cvc5 1.0"}
	trusted = append(trusted, ps.Trusted...)
	assumptions := append([]string{}, ps.Assumptions...)
	for _, a := range sortedStrings(e.assumed) {
		assumptions = append(assumptions, a)
	}
	assumptions = append(assumptions, "int and int64 arithmetic treated as mathematical; int32 and narrower arithmetic carries overflow obligations",
		"termination of loops is not proved (partial correctness)")
	var notes []string
	for _, n := range sortedStrings(e.notes) {
		notes = append(notes, n)
	}
	kinds := map[string]int{}
	for _, o := range selected {
		kinds[o.Kind]++
	}
	level := "proof"
	if ps.Level != "" {
		level = ps.Level
	}
	cov := map[string]interface{}{
		"obligations": len(selected), "discharged": discharged,
		"checker_cmd":              fmt.Sprintf("bin/vcheck check --property %s --tier %s", ps.ID, tier),
		"trusted_base":             trusted,
		"functions_under_contract": funcs,
		"by_solver":                bySolver,
		"obligation_kinds":         kinds,
		"lemmas":                   res.lemmaNames,
		"samples":                  samples,
		"dropped_or_modelled":      notes,
		"bounded_checks":           ps.Bounded,
		"translate_errors":         res.translateErr,
		"known_findings_reported":  knownHit,
	}
	ev := map[string]interface{}{
		"property_id": ps.ID, "tier": tier, "seed": seed, "level": level, "coverage": cov,
		"assumptions": assumptions, "wall_s": wall, "violations": len(violations),
	}
	os.MkdirAll(filepath.Join(verif, "evidence"), 0o755)
	data, _ := json.MarshalIndent(ev, "", " ")
	writeFileAtomic(filepath.Join(verif, "evidence", ps.ID+".json"), data)
}

func cmdDump(args []string) int {
	fs := flag.NewFlagSet("dump", flag.ExitOnError)
	pkgN := fs.String("pkg", "", "package short name")
	fn := fs.String("func", "", "function key")
	profile := fs.String("profile", "default", "profile")
	repo := fs.String("repo", "/repo", "repository root")
	verif := fs.String("verif", "/verif", "verification root")
	solve := fs.Bool("solve", false, "run the solvers")
	smt := fs.String("smt", "", "write the SMT query of the obligation whose name contains this string to stdout")
	timeout := fs.Int("timeout", 20, "solver timeout")
	sliceDepth := fs.Int("slice", 0, "with --smt: assumption slice depth (0 = all)")
	fs.Parse(args)
	e := newEngine()
	if err := e.load(*repo, *verif, pkgsFor(*pkgN)); err != nil {
		fmt.Fprintln(os.Stderr, "load error:", err)
		return 2
	}
	if err := e.prepareAxioms(); err != nil {
		fmt.Fprintln(os.Stderr, "error:", err)
		return 2
	}
	var lemmaAx []axiomTerm
	lemmaAxBy := map[string]axiomTerm{}
	lemmaUses := map[string][]string{}
	for _, l := range e.lemmas {
		obls, ax, err := e.lemmaObligations(l)
		if err != nil {
			fmt.Fprintln(os.Stderr, "error:", err)
			return 2
		}
		lemmaAx = append(lemmaAx, ax)
		lemmaAxBy[l.Name] = ax
		lemmaUses[l.Name] = l.Uses
		if *fn == "lemmas" {
			e.obls = append(e.obls, obls...)
		}
	}
	if strings.HasPrefix(*fn, "shape:") {
		env := &SpecEnv{e: e, st: &State{}, pkg: e.pkgByShort(*pkgN)}
		sh := e.shapeOf(env.resolveGoType(strings.TrimPrefix(*fn, "shape:")))
		e.dumpShape(sh, 0, map[*Shape]bool{})
		return 0
	}
	if *fn != "lemmas" {
		pkg := e.pkgByShort(*pkgN)
		if pkg == nil {
			fmt.Fprintln(os.Stderr, "unknown package")
			return 2
		}
		for _, f := range strings.Split(*fn, ",") {
			decl := e.findFunc(pkg, f)
			if decl == nil {
				fmt.Fprintln(os.Stderr, "function not found:", f)
				return 2
			}
			if err := e.verifyFunc(pkg, decl, *profile); err != nil {
				fmt.Fprintln(os.Stderr, "translate error:", err)
				return 1
			}
		}
	}
	axiomsFor := func(o *Obligation) []axiomTerm {
		if strings.HasPrefix(o.Func, "lemma.") {
			out := e.axiomsOnly("lemma")
			for _, u := range lemmaUses[strings.TrimPrefix(o.Func, "lemma.")] {
				out = append(out, lemmaAxBy[u])
			}
			return out
		}
		out := e.axiomsOnly("vc")
		for _, n := range e.funcLemmas[o.Func] {
			if ax, ok := lemmaAxBy[n]; ok {
				out = append(out, ax)
			}
		}
		return out
	}
	if *smt != "" {
		for _, o := range e.obls {
			if strings.Contains(o.Name, *smt) {
				fmt.Println("; " + o.Name)
				fmt.Print(e.buildQuerySliced(o, axiomsFor(o), false, *sliceDepth))
				return 0
			}
		}
		fmt.Fprintln(os.Stderr, "no such obligation")
		return 1
	}
	if *solve {
		e.solveAll(e.obls, axiomsFor, solveOpts{timeout: *timeout, outDir: filepath.Join(*verif, "out", fmt.Sprintf("dump-%d", os.Getpid())), workers: 5})
		defer os.RemoveAll(filepath.Join(*verif, "out", fmt.Sprintf("dump-%d", os.Getpid())))
	}
	bad := 0
	for _, o := range e.obls {
		if o.Kind == "cover" {
			if *solve && o.Result == "unsat" {
				bad++
				fmt.Printf("VACUOUS  %-10s %6.2fs %s\n", o.Solver, o.Seconds, o.Name)
			}
			continue
		}
		fmt.Printf("%-8s %-10s %6.2fs %s %v\n", o.Result, o.Solver, o.Seconds, o.Name, o.Tags)
		if *solve && o.Result != "unsat" {
			bad++
			fmt.Printf("      clause: %s\n      at %s\n      %s\n", o.Src, o.Pos, strings.ReplaceAll(o.Output, "\n", "\n      "))
		}
	}
	fmt.Printf("%d obligations, %d not discharged\n", len(e.obls), bad)
	for _, n := range sortedStrings(e.notes) {
		fmt.Println("note:", n)
	}
	if bad > 0 {
		return 1
	}
	return 0
}

// axiomsOnly returns the axioms usable for a kind of obligation ("lemma" or "vc"):
// untagged axioms are always included.
func (e *Engine) axiomsOnly(kind string) []axiomTerm {
	var out []axiomTerm
	for _, a := range e.axiomTerms {
		if a.only == "" || a.only == kind {
			out = append(out, a)
		}
	}
	return out
}

// writeFileAtomic writes through a temporary file and a rename, so that checks
// running concurrently (same or different properties) never observe a partial file.
func writeFileAtomic(path string, data []byte) error {
	tmp := fmt.Sprintf("%s.%d.tmp", path, os.Getpid())
	if err := os.WriteFile(tmp, data, 0o644); err != nil {
		return err
	}
	return os.Rename(tmp, path)
}

// pruneOutDirs removes query directories left behind by failed runs older than a day
// (each run writes into its own directory so concurrent runs cannot disturb each other).
func pruneOutDirs(root string) {
	ents, err := os.ReadDir(root)
	if err != nil {
		return
	}
	for _, en := range ents {
		if info, err := en.Info(); err == nil && en.IsDir() && time.Since(info.ModTime()) > 24*time.Hour {
			os.RemoveAll(filepath.Join(root, en.Name()))
		}
	}
}

func lastLine(s string) string {
	lines := strings.Split(strings.TrimSpace(s), "\n")
	return lines[len(lines)-1]
}

// cmdReplay re-runs what a replay file records against the current tree: it prints the failed obligation,
// the solver's answer and the stored failing input (if any), then runs the property's bounded replay
// harness(es) on the real code again.  Exit 1 when a failing input is reproduced now, 0 otherwise.
func cmdReplay(args []string) int {
	fs := flag.NewFlagSet("replay", flag.ExitOnError)
	repo := fs.String("repo", "/repo", "repository root")
	verif := fs.String("verif", "/verif", "verification root")
	fs.Parse(args)
	if fs.NArg() != 1 {
		fmt.Fprintln(os.Stderr, "usage: vcheck replay <replay file>")
		return 2
	}
	data, err := os.ReadFile(fs.Arg(0))
	if err != nil {
		fmt.Fprintln(os.Stderr, "error:", err)
		return 2
	}
	var rec map[string]interface{}
	if err := json.Unmarshal(data, &rec); err != nil {
		fmt.Fprintln(os.Stderr, "error:", err)
		return 2
	}
	pid, _ := rec["property"].(string)
	fmt.Printf("property:    %v\nobligation:  %v\nclause:      %v\nposition:    %v\nsolver:      %v\n", pid, rec["obligation"], rec["clause"], rec["position"], rec["solver_result"])
	if cx, ok := rec["counterexample"]; ok {
		b, _ := json.MarshalIndent(cx, "  ", " ")
		fmt.Printf("stored failing input(s):\n  %s\n", b)
	} else {
		fmt.Println("stored failing input: none (no-failing-input-found); solver output follows")
		fmt.Println(rec["solver_output"])
	}
	props, err := loadProps(*verif)
	if err != nil || props[pid] == nil {
		fmt.Fprintln(os.Stderr, "error: unknown property in replay file")
		return 2
	}
	ps := props[pid]
	var specs []*ReplaySpec
	if ps.Replay != nil {
		specs = append(specs, ps.Replay)
	}
	for i := range ps.ReplayMore {
		specs = append(specs, &ps.ReplayMore[i])
	}
	ob, _ := rec["obligation"].(string)
	repro := false
	for _, rs := range specs {
		c := runReplay(rs, *repo, *verif, ob, pid, 0)
		fmt.Printf("--- harness %s (%s) on %s: %s\n", rs.Run, rs.File, *repo, c.Outcome)
		for _, ln := range strings.Split(c.Log, "\n") {
			t := strings.TrimSpace(ln)
			if strings.HasPrefix(t, "REPRODUCED") || strings.HasPrefix(t, "NOT-REPRODUCED") {
				fmt.Println(t)
			}
		}
		if c.Reproduced {
			repro = true
			break
		}
	}
	if repro {
		return 1
	}
	return 0
}
