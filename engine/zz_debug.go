package main

import (
	"fmt"
	"strings"
)

func (e *Engine) dumpShape(s *Shape, indent int, seen map[*Shape]bool) {
	pad := strings.Repeat("  ", indent)
	if s.Kind == KStruct {
		for _, f := range s.Fields {
			fmt.Printf("%s%s: %s (%d leaves)\n", pad, f.Name, f.Sh, e.nLeaves(f.Sh))
			if f.Sh.Kind == KStruct && indent < 6 {
				e.dumpShape(f.Sh, indent+1, seen)
			}
			if f.Sh.Kind == KSlice && f.Sh.Elem().Kind == KStruct && indent < 6 {
				e.dumpShape(f.Sh.Elem(), indent+1, seen)
			}
		}
	}
}
