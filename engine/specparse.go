package main

// Parser for the specification expression language used in //@ contract
// comments.  Grammar (lowest precedence first):
//
//	expr   := quant | iff
//	quant  := ('forall'|'exists') binder {',' binder} '::' ['{' expr {',' expr} '}'] expr
//	binder := name type
//	iff    := impl ['<==>' impl]
//	impl   := or ['==>' impl]
//	or     := and {'||' and}
//	and    := cmp {'&&' cmp}
//	cmp    := add [('=='|'!='|'<'|'<='|'>'|'>=') add]
//	add    := mul {('+'|'-') mul}
//	mul    := unary {('*'|'/'|'%') unary}
//	unary  := ('!'|'-') unary | postfix
//	postfix:= primary {'.' name | '[' expr ']' | '(' [expr {',' expr}] ')'}
//	primary:= name | int | string | '(' expr ')'
//
// Types (for binders and ghost declarations) are Go-like:
//
//	int int32 int64 bool string ref | *T | []T | set[T] | map[K]V | pkg.Name | Name

import (
	"fmt"
	"strings"
	"unicode"
)

type SExpr interface{}

type SIdent struct{ Name string }
type SInt struct{ V string }
type SStr struct{ V string }
type SUnary struct {
	Op string
	X  SExpr
}
type SBinary struct {
	Op   string
	L, R SExpr
}
type SCall struct {
	Fun  SExpr
	Args []SExpr
}
type SSel struct {
	X    SExpr
	Name string
}
type SIndex struct {
	X, I SExpr
}
type SBinder struct {
	Name string
	Type *SType
}
type SQuant struct {
	Forall   bool
	Vars     []SBinder
	Triggers [][]SExpr
	Body     SExpr
}

// SType is a parsed spec type.
type SType struct {
	Kind string // "name", "ptr", "slice", "set", "map"
	Name string // for "name": possibly qualified
	Elem *SType
	Key  *SType
}

func (t *SType) String() string {
	switch t.Kind {
	case "name":
		return t.Name
	case "ptr":
		return "*" + t.Elem.String()
	case "slice":
		return "[]" + t.Elem.String()
	case "set":
		return "set[" + t.Elem.String() + "]"
	case "map", "gomap":
		return "map[" + t.Key.String() + "]" + t.Elem.String()
	}
	return "?"
}

type stok struct {
	kind string // id int str op eof
	s    string
	pos  int
}

type sparser struct {
	src  string
	toks []stok
	p    int
}

func slex(src string) ([]stok, error) {
	var toks []stok
	i := 0
	for i < len(src) {
		c := src[i]
		switch {
		case c == ' ' || c == '\t' || c == '\n' || c == '\r':
			i++
		case unicode.IsLetter(rune(c)) || c == '_':
			j := i
			for j < len(src) && (unicode.IsLetter(rune(src[j])) || unicode.IsDigit(rune(src[j])) || src[j] == '_') {
				j++
			}
			toks = append(toks, stok{"id", src[i:j], i})
			i = j
		case unicode.IsDigit(rune(c)):
			j := i
			for j < len(src) && unicode.IsDigit(rune(src[j])) {
				j++
			}
			toks = append(toks, stok{"int", src[i:j], i})
			i = j
		case c == '"':
			j := i + 1
			for j < len(src) && src[j] != '"' {
				if src[j] == '\\' {
					j++
				}
				j++
			}
			if j >= len(src) {
				return nil, fmt.Errorf("unterminated string in %q", src)
			}
			toks = append(toks, stok{"str", src[i+1 : j], i})
			i = j + 1
		default:
			ops := []string{"<==>", "==>", "::", "==", "!=", "<=", ">=", "&&", "||", "<", ">", "+", "-", "*", "/", "%", "!", "(", ")", "[", "]", "{", "}", ",", ".", "=", ":", ";"}
			matched := false
			for _, op := range ops {
				if strings.HasPrefix(src[i:], op) {
					toks = append(toks, stok{"op", op, i})
					i += len(op)
					matched = true
					break
				}
			}
			if !matched {
				return nil, fmt.Errorf("unexpected character %q at %d in %q", c, i, src)
			}
		}
	}
	toks = append(toks, stok{"eof", "", len(src)})
	return toks, nil
}

func parseSpec(src string) (e SExpr, err error) {
	toks, err := slex(src)
	if err != nil {
		return nil, err
	}
	p := &sparser{src: src, toks: toks}
	defer func() {
		if r := recover(); r != nil {
			if pe, ok := r.(specParseErr); ok {
				err = fmt.Errorf("%s", string(pe))
				return
			}
			panic(r)
		}
	}()
	e = p.expr()
	if p.peek().kind != "eof" {
		p.fail("trailing input")
	}
	return e, nil
}

func parseSpecType(src string) (t *SType, rest string, err error) {
	toks, err := slex(src)
	if err != nil {
		return nil, "", err
	}
	p := &sparser{src: src, toks: toks}
	defer func() {
		if r := recover(); r != nil {
			if pe, ok := r.(specParseErr); ok {
				err = fmt.Errorf("%s", string(pe))
				return
			}
			panic(r)
		}
	}()
	t = p.typ()
	return t, src[p.peek().pos:], nil
}

type specParseErr string

func (p *sparser) fail(msg string) {
	t := p.peek()
	panic(specParseErr(fmt.Sprintf("spec parse error: %s at offset %d (%q) in %q", msg, t.pos, t.s, p.src)))
}

func (p *sparser) peek() stok { return p.toks[p.p] }
func (p *sparser) next() stok {
	t := p.toks[p.p]
	if p.p < len(p.toks)-1 {
		p.p++
	}
	return t
}
func (p *sparser) isOp(s string) bool {
	t := p.peek()
	return t.kind == "op" && t.s == s
}
func (p *sparser) accept(s string) bool {
	if p.isOp(s) {
		p.next()
		return true
	}
	return false
}
func (p *sparser) expect(s string) {
	if !p.accept(s) {
		p.fail("expected " + s)
	}
}

func (p *sparser) expr() SExpr {
	t := p.peek()
	if t.kind == "id" && (t.s == "forall" || t.s == "exists") {
		p.next()
		q := &SQuant{Forall: t.s == "forall"}
		for {
			n := p.next()
			if n.kind != "id" {
				p.fail("binder name expected")
			}
			ty := p.typ()
			q.Vars = append(q.Vars, SBinder{n.s, ty})
			if !p.accept(",") {
				break
			}
		}
		p.expect("::")
		for p.isOp("{") {
			p.next()
			var trig []SExpr
			for {
				trig = append(trig, p.expr())
				if !p.accept(",") {
					break
				}
			}
			p.expect("}")
			q.Triggers = append(q.Triggers, trig)
		}
		q.Body = p.expr()
		return q
	}
	return p.iff()
}

func (p *sparser) typ() *SType {
	t := p.peek()
	switch {
	case t.kind == "op" && t.s == "*":
		p.next()
		return &SType{Kind: "ptr", Elem: p.typ()}
	case t.kind == "op" && t.s == "[":
		p.next()
		p.expect("]")
		return &SType{Kind: "slice", Elem: p.typ()}
	case t.kind == "id" && t.s == "set":
		p.next()
		p.expect("[")
		e := p.typ()
		p.expect("]")
		return &SType{Kind: "set", Elem: e}
	case t.kind == "id" && t.s == "map":
		p.next()
		p.expect("[")
		k := p.typ()
		p.expect("]")
		return &SType{Kind: "map", Key: k, Elem: p.typ()}
	case t.kind == "id" && t.s == "gomap":
		// gomap[K]V: a reference to a Go map (an object of the map heap), as opposed to the total ghost map[K]V
		p.next()
		p.expect("[")
		k := p.typ()
		p.expect("]")
		return &SType{Kind: "gomap", Key: k, Elem: p.typ()}
	case t.kind == "id":
		p.next()
		name := t.s
		if p.isOp(".") {
			p.next()
			n2 := p.next()
			if n2.kind != "id" {
				p.fail("type name expected after '.'")
			}
			name += "." + n2.s
		}
		return &SType{Kind: "name", Name: name}
	}
	p.fail("type expected")
	return nil
}

func (p *sparser) iff() SExpr {
	l := p.impl()
	if p.accept("<==>") {
		r := p.impl()
		return &SBinary{"<==>", l, r}
	}
	return l
}

func (p *sparser) impl() SExpr {
	l := p.or()
	if p.accept("==>") {
		// the right-hand side may itself be a quantifier
		var r SExpr
		t := p.peek()
		if t.kind == "id" && (t.s == "forall" || t.s == "exists") {
			r = p.expr()
		} else {
			r = p.impl()
		}
		return &SBinary{"==>", l, r}
	}
	return l
}

func (p *sparser) or() SExpr {
	l := p.and()
	for p.accept("||") {
		r := p.and()
		l = &SBinary{"||", l, r}
	}
	return l
}

func (p *sparser) and() SExpr {
	l := p.cmp()
	for p.accept("&&") {
		var r SExpr
		t := p.peek()
		if t.kind == "id" && (t.s == "forall" || t.s == "exists") {
			r = p.expr()
		} else {
			r = p.cmp()
		}
		l = &SBinary{"&&", l, r}
	}
	return l
}

func (p *sparser) cmp() SExpr {
	l := p.add()
	for _, op := range []string{"==", "!=", "<=", ">=", "<", ">"} {
		if p.isOp(op) {
			p.next()
			r := p.add()
			return &SBinary{op, l, r}
		}
	}
	return l
}

func (p *sparser) add() SExpr {
	l := p.mul()
	for {
		if p.accept("+") {
			l = &SBinary{"+", l, p.mul()}
		} else if p.accept("-") {
			l = &SBinary{"-", l, p.mul()}
		} else {
			return l
		}
	}
}

func (p *sparser) mul() SExpr {
	l := p.unary()
	for {
		if p.accept("*") {
			l = &SBinary{"*", l, p.unary()}
		} else if p.accept("/") {
			l = &SBinary{"/", l, p.unary()}
		} else if p.accept("%") {
			l = &SBinary{"%", l, p.unary()}
		} else {
			return l
		}
	}
}

func (p *sparser) unary() SExpr {
	if p.accept("!") {
		return &SUnary{"!", p.unary()}
	}
	if p.accept("-") {
		return &SUnary{"-", p.unary()}
	}
	return p.postfix()
}

func (p *sparser) postfix() SExpr {
	x := p.primary()
	for {
		switch {
		case p.isOp("."):
			p.next()
			n := p.next()
			if n.kind != "id" {
				p.fail("field name expected")
			}
			x = &SSel{x, n.s}
		case p.isOp("["):
			p.next()
			i := p.expr()
			p.expect("]")
			x = &SIndex{x, i}
		case p.isOp("("):
			p.next()
			var args []SExpr
			if !p.isOp(")") {
				for {
					args = append(args, p.expr())
					if !p.accept(",") {
						break
					}
				}
			}
			p.expect(")")
			x = &SCall{x, args}
		default:
			return x
		}
	}
}

func (p *sparser) primary() SExpr {
	t := p.next()
	switch t.kind {
	case "id":
		return &SIdent{t.s}
	case "int":
		return &SInt{t.s}
	case "str":
		return &SStr{t.s}
	case "op":
		if t.s == "(" {
			e := p.expr()
			p.expect(")")
			return e
		}
	}
	p.p--
	p.fail("expression expected")
	return nil
}

// specFieldNames returns every identifier that follows a '.' in the spec
// source text; used to decide which struct fields are materialised.
func specFieldNames(src string, into map[string]bool) {
	toks, err := slex(src)
	if err != nil {
		return
	}
	for i := 0; i+1 < len(toks); i++ {
		if toks[i].kind == "op" && toks[i].s == "." && toks[i+1].kind == "id" {
			into[toks[i+1].s] = true
		}
	}
}
