package main

import (
	"fmt"
	"go/ast"
	"go/token"
	"go/types"
	"strings"

	"golang.org/x/tools/go/packages"
)

func (fc *FuncCtx) evalCall(c *ast.CallExpr, st *State) []*Value {
	e := fc.e
	// conversion
	if tv, ok := fc.info.Types[c.Fun]; ok && tv.IsType() {
		return []*Value{fc.evalConversion(c, tv.Type, st)}
	}
	// builtins
	if id, ok := ast.Unparen(c.Fun).(*ast.Ident); ok {
		if b, ok := fc.info.Uses[id].(*types.Builtin); ok {
			cs := fc.callOrd[c]
			fc.runGhostAt(st, "call", cs.callee, cs.n, "before", c.Pos())
			res := fc.evalBuiltin(c, b.Name(), st)
			fc.runGhostAt(st, "call", cs.callee, cs.n, "after", c.Pos())
			return res
		}
	}
	// function literal called in place
	if _, ok := ast.Unparen(c.Fun).(*ast.FuncLit); ok {
		fc.unsupp(c, "call of function literal")
	}
	var recv *Value
	if sel, ok := ast.Unparen(c.Fun).(*ast.SelectorExpr); ok {
		if s := fc.info.Selections[sel]; s != nil && s.Kind() == types.MethodVal {
			recv = fc.evalRecv(sel, s, st)
		}
	}
	var args []*Value
	for _, a := range c.Args {
		if len(c.Args) == 1 {
			if _, isCall := ast.Unparen(a).(*ast.CallExpr); isCall {
				vs := fc.evalMulti(a, st)
				args = append(args, vs...)
				continue
			}
		}
		args = append(args, fc.evalArg(a, st))
	}
	_ = e
	return fc.callWith(c, st, recv, args, false)
}

// evalArg evaluates a call argument; function literals become opaque function values.
func (fc *FuncCtx) evalArg(a ast.Expr, st *State) *Value {
	if _, ok := ast.Unparen(a).(*ast.FuncLit); ok {
		return scalar(shFunc, fc.e.fresh("closure", "Int"))
	}
	return fc.eval(a, st)
}

func (fc *FuncCtx) evalRecv(sel *ast.SelectorExpr, s *types.Selection, st *State) *Value {
	// receiver expression, following the implicit field path to the embedded receiver
	idx := s.Index()
	if len(idx) == 1 {
		return fc.eval(sel.X, st)
	}
	// promoted method through embedded fields: walk the path except the last (method) index
	cur := fc.eval(sel.X, st)
	curT := fc.info.TypeOf(sel.X)
	addr := "" // reference of the object that holds the current embedded struct (embedded structs share the host's reference)
	for _, i := range idx[:len(idx)-1] {
		if pt, ok := curT.Underlying().(*types.Pointer); ok {
			fc.safety(st, "nil", sel, not(eq(cur.T(), "0")))
			stT := pt.Elem()
			su := stT.Underlying().(*types.Struct)
			fv := su.Field(i)
			ssh := fc.e.shapeOf(stT)
			f := fc.e.findField(ssh, fv.Name())
			if f == nil {
				// receiver field not materialised: opaque
				return scalar(fc.e.shapeOf(fv.Type()), fc.e.fresh("recv", "Int"))
			}
			if f.Embedded && f.Sh.Kind == KStruct {
				addr = cur.T()
			} else {
				addr = ""
			}
			cur = fc.e.readFieldAt(st, ssh, f, cur.T())
			curT = fv.Type()
			continue
		}
		su := curT.Underlying().(*types.Struct)
		fv := su.Field(i)
		v, ok := fc.e.field(cur, fv.Name())
		if !ok {
			return scalar(fc.e.shapeOf(fv.Type()), fc.e.fresh("recv", "Int"))
		}
		cur = v
		curT = fv.Type()
		addr = ""
	}
	// a pointer-receiver method promoted from an embedded struct receives the host's reference
	if fn, ok := s.Obj().(*types.Func); ok {
		if r := fn.Type().(*types.Signature).Recv(); r != nil {
			if _, isPtr := r.Type().Underlying().(*types.Pointer); isPtr && cur.Sh.Kind == KStruct && addr != "" {
				return scalar(fc.e.shapeOf(r.Type()), addr)
			}
		}
	}
	return cur
}

func (fc *FuncCtx) evalConversion(c *ast.CallExpr, to types.Type, st *State) *Value {
	e := fc.e
	v := fc.eval(c.Args[0], st)
	from := fc.info.TypeOf(c.Args[0])
	tsh := e.shapeOf(to)
	if v == nilValue {
		return e.zeroValue(tsh)
	}
	switch {
	case tsh.Kind == KInt && v.Sh.Kind == KInt:
		if tsh.Bits > 0 {
			if tsh.Unsigned {
				mod := map[int]string{8: "256", 16: "65536", 32: "4294967296", 64: "18446744073709551616"}[tsh.Bits]
				if v.Sh.Unsigned && v.Sh.Bits > 0 && v.Sh.Bits <= tsh.Bits {
					return scalar(tsh, v.T())
				}
				return scalar(tsh, "(mod "+v.T()+" "+mod+")")
			}
			if !(v.Sh.Bits > 0 && !v.Sh.Unsigned && v.Sh.Bits <= tsh.Bits) {
				lo, hi := intRange(tsh)
				fc.safety(st, "conv", c, and("(<= "+lo+" "+v.T()+")", "(<= "+v.T()+" "+hi+")"))
			}
		}
		return scalar(tsh, v.T())
	case tsh.Kind == KStr && v.Sh.Kind == KStr:
		return scalar(tsh, v.T())
	case tsh.Kind == KSlice && v.Sh.Kind == KStr:
		// []byte(s): opaque bytes value carrying the string
		f := e.declFun("bytes.of", []string{"Str"}, "Int")
		ln := app(e.declFun("slen", []string{"Str"}, "Int"), v.T())
		out := e.zeroValue(tsh)
		out.L[0] = ln
		arr := e.declFun("bytes.arr", []string{"Str"}, e.leafSorts(tsh)[1])
		out.L[1] = app(arr, v.T())
		_ = f
		e.ensureBytesAxiom(e.leafSorts(tsh)[1])
		return out
	case tsh.Kind == KStr && v.Sh.Kind == KSlice:
		return scalar(tsh, e.bytesToStr(v))
	case tsh.Kind == KStr && v.Sh.Kind == KInt:
		f := e.declFun("sofrune", []string{"Int"}, "Str")
		return scalar(tsh, app(f, v.T()))
	case len(v.L) == e.nLeaves(tsh) && sameUnderlying(from, to):
		return &Value{Sh: tsh, L: v.L}
	case tsh.Kind == KIface || tsh.Kind == KErr:
		return fc.convertTo(v, tsh)
	case len(v.L) == e.nLeaves(tsh) && v.Sh.Kind == tsh.Kind:
		return &Value{Sh: tsh, L: v.L}
	}
	fc.unsupp(c, "conversion from %s to %s", from, to)
	return nil
}

func sameUnderlying(a, b types.Type) bool {
	return types.Identical(a.Underlying(), b.Underlying())
}

func (fc *FuncCtx) evalBuiltin(c *ast.CallExpr, name string, st *State) []*Value {
	e := fc.e
	switch name {
	case "len":
		v := fc.eval(c.Args[0], st)
		switch v.Sh.Kind {
		case KSlice:
			return []*Value{scalar(shInt, sliceLen(v))}
		case KStr:
			t := app(e.declFun("slen", []string{"Str"}, "Int"), v.T())
			st.assume("(<= 0 " + t + ")")
			// only the empty string has length 0
			st.assume(eq(eq(t, "0"), eq(v.T(), e.strLit(""))))
			return []*Value{scalar(shInt, t)}
		case KMapRef:
			card := e.declFun("map.len", []string{"(Array " + e.leafSorts(v.Sh.Key)[0] + " Bool)"}, "Int")
			dk, dsh := e.mapDomKey(v.Sh)
			t := ite(eq(v.T(), "0"), "0", app(card, e.heapRead(st, dk, dsh, v.T()).T()))
			st.assume("(<= 0 " + t + ")")
			return []*Value{scalar(shInt, t)}
		}
		fc.unsupp(c, "len of %s", v.Sh)
	case "cap":
		fc.unsupp(c, "cap")
	case "new":
		t := fc.info.TypeOf(c.Args[0])
		sh := e.shapeOf(t)
		r := e.allocRef(st, "new")
		p := scalar(e.shapeOf(fc.info.TypeOf(c)), r)
		e.storeDeref(st, p, e.zeroValue(sh))
		return []*Value{p}
	case "make":
		t := fc.info.TypeOf(c.Args[0])
		sh := e.shapeOf(t)
		switch sh.Kind {
		case KSlice:
			ln := fc.eval(c.Args[1], st)
			fc.safety(st, "makelen", c, "(<= 0 "+ln.T()+")")
			if len(c.Args) > 2 {
				cp := fc.eval(c.Args[2], st)
				fc.safety(st, "makelen", c, and("(<= 0 "+cp.T()+")", "(<= "+ln.T()+" "+cp.T()+")"))
			}
			v := e.zeroValue(sh)
			v.L[0] = ln.T()
			return []*Value{v}
		case KMapRef:
			if len(c.Args) > 1 {
				fc.eval(c.Args[1], st)
			}
			return []*Value{e.newMap(st, sh)}
		}
		fc.unsupp(c, "make of %s", t)
	case "append":
		s := fc.eval(c.Args[0], st)
		sh := e.shapeOf(fc.info.TypeOf(c))
		if s == nilValue {
			s = e.zeroValue(sh)
		}
		if c.Ellipsis.IsValid() {
			o := fc.eval(c.Args[1], st)
			if o == nilValue {
				return []*Value{s}
			}
			// concatenation: result[i] = i < len(s) ? s[i] : o[i-len(s)]
			res := e.freshValue(sh, "cat")
			st.assume(eq(res.L[0], "(+ "+s.L[0]+" "+o.L[0]+")"))
			e.nfresh++
			i := smtSym(fmt.Sprintf("i!b%d", e.nfresh))
			var eqs []string
			for k := 1; k < len(res.L); k++ {
				eqs = append(eqs, eq(sel(res.L[k], i), ite("(< "+i+" "+s.L[0]+")", sel(s.L[k], i), sel(o.L[k], "(- "+i+" "+s.L[0]+")"))))
			}
			if len(eqs) > 0 {
				st.assume("(forall ((" + i + " Int)) (=> (and (<= 0 " + i + ") (< " + i + " " + res.L[0] + ")) " + and(eqs...) + "))")
			}
			return []*Value{res}
		}
		cur := s
		for _, a := range c.Args[1:] {
			ev := fc.convertTo(fc.eval(a, st), sh.Elem())
			nv := e.sliceStore(cur, cur.L[0], ev)
			nv.L[0] = "(+ " + cur.L[0] + " 1)"
			cur = nv
		}
		return []*Value{cur}
	case "delete":
		m := fc.eval(c.Args[0], st)
		k := fc.eval(c.Args[1], st)
		// delete on a nil map is a no-op; frame: only for non-nil maps
		if e.dry == 0 && fc.contract != nil && fc.contract.Trusted == "" {
			dk, _ := e.mapDomKey(m.Sh)
			goal := or(eq(m.T(), "0"), fc.framePermits(st, dk, m.T()))
			if goal != "true" {
				fc.oblige(st, "frame", exprText(e.fset, c)+"|"+dk, c.Pos(), goal, nil, "delete from map must be permitted by modifies or target a fresh map")
			}
		}
		e.mapDelete(st, m, k.T())
		return nil
	case "panic":
		if len(c.Args) > 0 {
			fc.evalMulti(c.Args[0], st)
		}
		fc.safety(st, "panic", c, "false")
		// execution does not continue
		st.pc = append(st.pc, "false")
		return nil
	case "close":
		ch := fc.eval(c.Args[0], st)
		fc.chanOp("close", c, st, ch, fc.info.TypeOf(c.Args[0]), nil)
		return nil
	}
	fc.unsupp(c, "builtin %s", name)
	return nil
}

// ---------------------------------------------------------------- contract calls

func (fc *FuncCtx) staticCallee(c *ast.CallExpr) (*types.Func, *types.Var) {
	switch f := ast.Unparen(c.Fun).(type) {
	case *ast.Ident:
		switch o := fc.info.Uses[f].(type) {
		case *types.Func:
			return o, nil
		case *types.Var:
			return nil, o
		}
	case *ast.SelectorExpr:
		if s := fc.info.Selections[f]; s != nil {
			switch o := s.Obj().(type) {
			case *types.Func:
				return o, nil
			case *types.Var:
				return nil, o
			}
			return nil, nil
		}
		switch o := fc.info.Uses[f.Sel].(type) {
		case *types.Func:
			return o, nil
		case *types.Var:
			return nil, o
		}
	}
	return nil, nil
}

func (fc *FuncCtx) callWith(c *ast.CallExpr, st *State, recv *Value, args []*Value, deferredCall bool) []*Value {
	e := fc.e
	fn, fv := fc.staticCallee(c)
	sig, _ := fc.info.TypeOf(c.Fun).Underlying().(*types.Signature)
	if sig == nil {
		fc.unsupp(c, "call of non-function")
	}
	freshResults := func() []*Value {
		var out []*Value
		for i := 0; i < sig.Results().Len(); i++ {
			sh := e.shapeOf(sig.Results().At(i).Type())
			v := e.freshValue(sh, "r."+calleeName(c))
			for _, f := range e.typeFacts(v) {
				st.assume(f)
			}
			out = append(out, v)
		}
		return out
	}
	if fn == nil {
		// call through a function value: use a funcparam contract if the enclosing contract has one
		if fv != nil {
			if res, ok := fc.callFuncValue(c, st, fv, args, sig); ok {
				return res
			}
		}
		fc.unsupp(c, "call through function value %s", exprText(e.fset, c.Fun))
	}
	if fsig, ok := fn.Type().(*types.Signature); ok && fsig.TypeParams() == nil && fsig.RecvTypeParams() == nil {
		sig = fsig
	}
	pp, key := funcKey(fn)
	full := pp + ":" + key
	if e.dropped[full] || e.dropped[pp+":*"] {
		e.note("dropped call " + shortPkg(pp) + "." + key + " (arguments evaluated for safety)")
		return freshResults()
	}
	if e.opaque[full] {
		// pure accessor of a client/lister handle: result is an opaque non-nil value
		res := freshResults()
		for _, r := range res {
			switch r.Sh.Kind {
			case KIface:
				st.assume(not(eq(r.L[0], "0")))
			case KRef, KMapRef:
				st.assume(not(eq(r.T(), "0")))
			}
		}
		return res
	}
	// special forms
	if isSpecialCall(full) {
		cs := fc.callOrd[c]
		fc.runGhostAt(st, "call", cs.callee, cs.n, "before", c.Pos())
		res, _ := fc.specialCall(c, st, full, recv, args, sig)
		fc.runGhostAt(st, "call", cs.callee, cs.n, "after", c.Pos())
		return res
	}
	_, callerKey := funcKey(fc.fn)
	ct := e.contractFor(pp, key+"@"+callerKey)
	if ct == nil {
		ct = e.contractFor(pp, key)
	}
	if ct == nil && fn.Pkg() != nil {
		if res, ok := fc.inlineCall(c, st, fn, recv, args); ok {
			return res
		}
	}
	if ct == nil {
		// a library function (outside this repository) that takes only values - numbers, booleans, strings,
		// errors - cannot touch the state the contracts speak about: it is treated as a pure function with an
		// unknown result, and recorded as an assumption.  Anything else without a contract cannot be translated.
		if fn.Pkg() != nil && !strings.HasPrefix(pp, "github.com/pingcap/advanced-statefulset") && recv == nil && valueOnly(args) {
			e.assumed["library function "+full+" has no contract: assumed pure (it only takes numbers, booleans, strings or errors)"] = true
			return freshResults()
		}
		fc.unsupp(c, "call of %s without contract", full)
	}
	if ct.Inline && fn.Pkg() != nil {
		if res, ok := fc.inlineCall(c, st, fn, recv, args); ok {
			return res
		}
	}
	return fc.applyContract(c, st, ct, fn, sig, recv, args)
}

// bindParams maps callee parameter names to argument values.
func (fc *FuncCtx) bindParams(c *ast.CallExpr, ct *Contract, sig *types.Signature, recv *Value, args []*Value) map[string]*Value {
	e := fc.e
	names := map[string]*Value{}
	pnames := ct.Params
	if r := sig.Recv(); r != nil && recv != nil {
		rn := r.Name()
		if len(pnames) > 0 {
			rn = pnames[0]
			pnames = pnames[1:]
		}
		if rn == "" || rn == "_" {
			rn = "recv"
		}
		names[rn] = fc.convertTo(recv, e.shapeOf(r.Type()))
		names["recv"] = names[rn]
	} else if recv != nil {
		names["recv"] = recv
	}
	np := sig.Params().Len()
	for i := 0; i < np; i++ {
		p := sig.Params().At(i)
		pn := p.Name()
		if i < len(pnames) {
			pn = pnames[i]
		}
		if pn == "" || pn == "_" {
			pn = fmt.Sprintf("arg%d", i)
		}
		psh := e.shapeOf(p.Type())
		if sig.Variadic() && i == np-1 {
			if c != nil && c.Ellipsis.IsValid() {
				if i < len(args) {
					names[pn] = fc.convertTo(args[i], psh)
				}
			} else {
				// pack the remaining arguments into a slice
				v := e.zeroValue(psh)
				cnt := 0
				for _, a := range args[i:] {
					v = e.sliceStore(v, fmt.Sprint(cnt), fc.convertTo(a, psh.Elem()))
					cnt++
				}
				v.L[0] = fmt.Sprint(cnt)
				names[pn] = v
			}
			continue
		}
		if i < len(args) {
			names[pn] = fc.convertTo(args[i], psh)
		}
	}
	return names
}

func (fc *FuncCtx) applyContract(c *ast.CallExpr, st *State, ct *Contract, fn *types.Func, sig *types.Signature, recv *Value, args []*Value) []*Value {
	e := fc.e
	names := fc.bindParams(c, ct, sig, recv, args)
	cs := fc.callOrd[c]
	calleeLabel := fmt.Sprintf("%s#%d", cs.callee, cs.n)
	if cs.callee == "" {
		calleeLabel = fn.Name()
	}
	cpkg := e.pkgForCF(ct.CF)
	if cpkg == nil {
		cpkg = fc.pkg
	}
	fc.runGhostAt(st, "call", cs.callee, cs.n, "before", c.Pos())
	mkEnv := func(s, old *State, nm map[string]*Value) *SpecEnv {
		env := &SpecEnv{e: e, st: s, old: old, names: nm, cf: ct.CF, pkg: cpkg}
		if strings.Contains(ct.Key, "@") {
			// caller-specific contract: the caller's variables are visible (parameter names win)
			env.goLookup = fc.specEnv(s, old, c.Pos(), nil).goLookup
		}
		return env
	}
	// preconditions
	for i, r := range ct.Requires {
		if r.Profile != "" && r.Profile != fc.profile {
			continue
		}
		if r.Free {
			continue
		}
		lbl := r.Label
		if lbl == "" {
			lbl = fmt.Sprintf("c%d", i+1)
		}
		goal, skipped := fc.evalRequiresThroughIface(mkEnv(st, nil, names), r)
		if skipped {
			e.assumed["receiver well-formedness of the implementation behind interface call "+calleeLabel+" (clause: "+r.Src+")"] = true
			continue
		}
		fc.oblige(st, "pre", calleeLabel+":"+lbl, c.Pos(), goal, r.Tags, r.Src)
		if !e.noAssume[fc.name+"/pre:"+calleeLabel+":"+lbl] {
			st.assume(goal)
		}
	}
	pre := st.clone()
	// frame: what the callee may modify must be permitted to the caller too
	targets := fc.modTargets(ct, pre, pre, names, c.Pos())
	for _, t := range targets {
		switch {
		case t.ghost != "":
			if g, ok := st.ghost[t.ghost]; ok {
				st.ghost[t.ghost] = e.freshValue(g.Sh, "g."+t.ghost)
			}
		case t.elems != "":
			// in-place modification of the elements of a slice argument
			fc.havocSliceArg(c, st, ct, sig, t.elems, names)
		case t.all:
			if fc.contract != nil && fc.contract.Trusted == "" && e.dry == 0 {
				goal := fc.framePermitsAll(t.key)
				if goal != "true" {
					fc.oblige(st, "frame", calleeLabel+"|all("+t.key+")", c.Pos(), goal, nil, "callee may modify "+t.key+" of any object; the caller's modifies clause must allow it")
				}
			}
			e.heapHavocAll(st, t.key, t.sh)
		case t.pred != nil:
			// every object the callee may modify must be one the caller may modify
			if fc.contract != nil && fc.contract.Trusted == "" && e.dry == 0 {
				e.nfresh++
				r := smtSym(fmt.Sprintf("r!b%d", e.nfresh))
				goal := "(forall ((" + r + " Int)) (=> " + t.pred(r) + " " + fc.framePermits(st, t.key, r) + "))"
				fc.oblige(st, "frame", calleeLabel+"|maps("+t.key+")", c.Pos(), goal, nil, "every map the callee may modify (its maps(...) clause) must be fresh or permitted by the caller's modifies clause")
			}
			e.heapHavocWhere(st, t.key, t.sh, t.pred)
		default:
			fc.frameCheckKey(st, t.key, t.ref, c)
			e.heapHavocAt(st, t.key, t.sh, t.ref)
		}
	}
	if !ct.Pure && !ct.NoAlloc {
		na := e.fresh("alloc", "Int")
		st.assume("(>= " + na + " " + st.alloc + ")")
		st.alloc = na
	}
	// results
	var results []*Value
	rnames := map[string]*Value{}
	for k, v := range names {
		rnames[k] = v
	}
	// slice arguments whose elements were havoced are re-bound to their new value
	for k, v := range fc.reboundSlices {
		rnames[k] = v
	}
	fc.reboundSlices = nil
	nres := sig.Results().Len()
	for i := 0; i < nres; i++ {
		rv := sig.Results().At(i)
		sh := e.shapeOf(rv.Type())
		v := e.freshValue(sh, "r."+fn.Name())
		for _, f := range e.typeFacts(v) {
			st.assume(f)
		}
		fc.allocFacts(st, v)
		results = append(results, v)
		rn := rv.Name()
		if i < len(ct.Results) {
			rn = ct.Results[i]
		} else if rn == "" || rn == "_" {
			if nres == 1 {
				rn = "result"
			} else {
				rn = fmt.Sprintf("result%d", i)
			}
		}
		rnames[rn] = v
	}
	for _, en := range ct.Ensures {
		if en.Profile != "" && en.Profile != fc.profile {
			continue
		}
		env := mkEnv(st, pre, rnames)
		env.oldNames = names
		// a postcondition that speaks about the callee's own ghost variables is checked in the callee
		// but cannot be used by callers: it is skipped here (nothing is assumed)
		if t, ok := fc.evalEnsuresForCaller(env, en); ok {
			st.assume(t)
			if en.Free {
				// a free postcondition is assumed by callers and not proved in the callee: an assumption of the proof
				e.assumed["free (unchecked) postcondition of "+ct.Key+": "+en.Src] = true
			}
		}
	}
	if ct.Trusted != "" || ct.Extern {
		e.assumed["assumed contract: "+ct.Key] = true
	}
	if ct.Trusted != "" && !ct.Extern && fn != nil {
		if e.trustedUsed == nil {
			e.trustedUsed = map[string]bool{}
		}
		tp, tk := funcKey(fn)
		e.trustedUsed[tp+":"+tk] = true
	}
	// ghost statements after the call may name the callee's results
	fc.ghostNames = map[string]*Value{}
	for i, rv := range results {
		rn := sig.Results().At(i).Name()
		if i < len(ct.Results) {
			rn = ct.Results[i]
		} else if rn == "" || rn == "_" {
			if nres == 1 {
				rn = "result"
			} else {
				rn = fmt.Sprintf("result%d", i)
			}
		}
		fc.ghostNames[rn] = rv
	}
	fc.runGhostAt(st, "call", cs.callee, cs.n, "after", c.Pos())
	fc.ghostNames = nil
	return results
}

func (fc *FuncCtx) framePermitsAll(key string) string {
	for _, m := range fc.modTargets(fc.contract, fc.entry, fc.entry, nil, fc.decl.Body.Lbrace+1) {
		if m.key == key && m.all {
			return "true"
		}
	}
	return "false"
}

// havocSliceArg models a callee that writes elements of a slice argument in
// place: the caller's slice variable keeps its length and gets fresh elements.
func (fc *FuncCtx) havocSliceArg(c *ast.CallExpr, st *State, ct *Contract, sig *types.Signature, pname string, names map[string]*Value) {
	e := fc.e
	idx := -1
	pnames := ct.Params
	if sig.Recv() != nil && len(pnames) > 0 {
		pnames = pnames[1:]
	}
	for i := 0; i < sig.Params().Len(); i++ {
		n := sig.Params().At(i).Name()
		if i < len(pnames) {
			n = pnames[i]
		}
		if n == pname {
			idx = i
		}
	}
	if idx < 0 || c == nil || idx >= len(c.Args) {
		fc.unsupp(c, "modifies elems(%s): no such parameter", pname)
	}
	old := names[pname]
	nv := e.freshValue(old.Sh, "elems."+pname)
	nv.L[0] = old.L[0]
	arg := ast.Unparen(c.Args[idx])
	// conversions such as byRevision(revisions) share the backing array
	if call, ok := arg.(*ast.CallExpr); ok {
		if tv, ok := fc.info.Types[call.Fun]; ok && tv.IsType() {
			arg = ast.Unparen(call.Args[0])
		}
	}
	lv := fc.lvalueOrValue(arg, st)
	if _, isR := lv.(*rvalLV); isR {
		fc.unsupp(c, "modifies elems(%s): argument is not addressable", pname)
	}
	lv.store(st, &Value{Sh: lv.shape(), L: nv.L})
	if fc.reboundSlices == nil {
		fc.reboundSlices = map[string]*Value{}
	}
	fc.reboundSlices[pname] = nv
}

// callFuncValue handles calls through function-typed parameters using
// "funcparam" pseudo-contracts: a contract whose key is
// "<EnclosingKey>$<param>" describes what a call of that parameter does.
func (fc *FuncCtx) callFuncValue(c *ast.CallExpr, st *State, fv *types.Var, args []*Value, sig *types.Signature) ([]*Value, bool) {
	e := fc.e
	pp, key := funcKey(fc.fn)
	ct := e.contractFor(pp, key+"$"+fv.Name())
	if ct == nil {
		return nil, false
	}
	names := map[string]*Value{}
	for i := 0; i < sig.Params().Len() && i < len(args); i++ {
		pn := fmt.Sprintf("arg%d", i)
		if i < len(ct.Params) {
			pn = ct.Params[i]
		}
		names[pn] = fc.convertTo(args[i], e.shapeOf(sig.Params().At(i).Type()))
	}
	// the enclosing function's variables are visible too (resolved at the call position)
	cs := fc.callOrd[c]
	calleeLabel := fmt.Sprintf("%s#%d", cs.callee, cs.n)
	fc.runGhostAt(st, "call", cs.callee, cs.n, "before", c.Pos())
	env := func(s, old *State, nm map[string]*Value) *SpecEnv { return fc.specEnv(s, old, c.Pos(), nm) }
	for i, r := range ct.Requires {
		lbl := r.Label
		if lbl == "" {
			lbl = fmt.Sprintf("c%d", i+1)
		}
		goal := env(st, fc.entry, names).evalBool(r.Expr)
		fc.oblige(st, "pre", calleeLabel+":"+lbl, c.Pos(), goal, r.Tags, r.Src)
		st.assume(goal)
	}
	pre := st.clone()
	for _, t := range fc.modTargets(ct, pre, pre, nil, c.Pos()) {
		switch {
		case t.ghost != "":
			if g, ok := st.ghost[t.ghost]; ok {
				st.ghost[t.ghost] = e.freshValue(g.Sh, "g."+t.ghost)
			}
		case t.all:
			e.heapHavocAll(st, t.key, t.sh)
		case t.pred != nil:
			e.heapHavocWhere(st, t.key, t.sh, t.pred)
		default:
			e.heapHavocAt(st, t.key, t.sh, t.ref)
		}
	}
	if !ct.Pure {
		na := e.fresh("alloc", "Int")
		st.assume("(>= " + na + " " + st.alloc + ")")
		st.alloc = na
	}
	var results []*Value
	nres := sig.Results().Len()
	for i := 0; i < nres; i++ {
		sh := e.shapeOf(sig.Results().At(i).Type())
		v := e.freshValue(sh, "r."+fv.Name())
		for _, f := range e.typeFacts(v) {
			st.assume(f)
		}
		fc.allocFacts(st, v)
		results = append(results, v)
		rn := "result"
		if nres > 1 {
			rn = fmt.Sprintf("result%d", i)
		}
		if i < len(ct.Results) {
			rn = ct.Results[i]
		}
		names[rn] = v
	}
	for _, en := range ct.Ensures {
		// old() in a funcparam contract refers to the state before this call
		st.assume(fc.specEnv(st, pre, c.Pos(), names).evalBool(en.Expr))
	}
	e.assumed["assumed behaviour of function parameter "+fv.Name()+" in "+fc.name] = true
	fc.runGhostAt(st, "call", cs.callee, cs.n, "after", c.Pos())
	return results, true
}

// inlineCall executes the body of a small same-module function in place of
// applying its contract (used only where the contract file says "inline").
// inlineCall executes the body of a function of the same package in place.  It is the fallback for a call to
// a function that has no contract (for instance a helper a refactoring has just extracted): sound - it is plain
// symbolic execution of the callee's code - and restricted to bodies the translator can handle without
// annotations: no loops, no defer, no go, no function literals, no recursion.
func (fc *FuncCtx) inlineCall(c *ast.CallExpr, st *State, fn *types.Func, recv *Value, args []*Value) ([]*Value, bool) {
	e := fc.e
	if fn.Pkg() != fc.pkg.Types || len(fc.inlines) >= 3 {
		return nil, false
	}
	var decl *ast.FuncDecl
	for _, f := range fc.pkg.Syntax {
		for _, d := range f.Decls {
			if fd, ok := d.(*ast.FuncDecl); ok && fd.Body != nil && fc.info.Defs[fd.Name] == fn {
				decl = fd
			}
		}
	}
	if decl == nil {
		return nil, false
	}
	simple := true
	ast.Inspect(decl.Body, func(n ast.Node) bool {
		switch n.(type) {
		case *ast.ForStmt, *ast.RangeStmt, *ast.DeferStmt, *ast.GoStmt, *ast.FuncLit, *ast.SelectStmt, *ast.LabeledStmt:
			simple = false
		}
		return simple
	})
	for _, fr := range fc.inlines {
		if fr.fn == fn {
			simple = false // recursion
		}
	}
	if !simple {
		return nil, false
	}
	sig := fn.Type().(*types.Signature)
	if sig.Variadic() {
		return nil, false
	}
	e.note("call of " + fn.Name() + " (no contract) inlined in " + fc.name)
	if r := sig.Recv(); r != nil && recv != nil {
		fc.declareVar(st, r, fc.convertTo(recv, e.shapeOf(r.Type())))
	}
	for i := 0; i < sig.Params().Len() && i < len(args); i++ {
		pv := sig.Params().At(i)
		fc.declareVar(st, pv, fc.convertTo(args[i], e.shapeOf(pv.Type())))
	}
	fr := &inlineFrame{fn: fn, id: len(fc.inlines)}
	for i := 0; i < sig.Results().Len(); i++ {
		rv := sig.Results().At(i)
		fr.results = append(fr.results, rv)
		if rv.Name() != "" && rv.Name() != "_" {
			fc.declareVar(st, rv, e.zeroValue(e.shapeOf(rv.Type())))
		}
	}
	fc.inlines = append(fc.inlines, fr)
	savedFrames, savedDefers := fc.frames, fc.defers
	fc.frames, fc.defers = nil, nil
	end := fc.execBlock(decl.Body, st.clone())
	fc.frames, fc.defers = savedFrames, savedDefers
	fc.inlines = fc.inlines[:len(fc.inlines)-1]
	if end != nil {
		if len(fr.results) != 0 {
			fc.unsupp(c, "inlined function %s falls off the end", fn.Name())
		}
		fr.rets = append(fr.rets, end)
	}
	out := e.merge(fr.rets)
	if out == nil {
		// the callee never returns (panics on every path)
		st.pc = append(st.pc, "false")
		var zs []*Value
		for _, rv := range fr.results {
			zs = append(zs, e.zeroValue(e.shapeOf(rv.Type())))
		}
		return zs, true
	}
	*st = *out
	var res []*Value
	for i := range fr.results {
		name := fmt.Sprintf("$inl%d.%d", fr.id, i)
		res = append(res, st.ghost[name])
		delete(st.ghost, name)
	}
	return res, true
}

type inlineFrame struct {
	fn      *types.Func
	id      int
	results []*types.Var
	rets    []*State
}

// ---------------------------------------------------------------- special call forms

func (fc *FuncCtx) specialCall(c *ast.CallExpr, st *State, full string, recv *Value, args []*Value, sig *types.Signature) ([]*Value, bool) {
	e := fc.e
	switch full {
	case "fmt:Sprintf":
		if tv, ok := fc.info.Types[c.Args[0]]; ok && tv.Value != nil {
			f := strings.Trim(tv.Value.ExactString(), "\"")
			if uq, err := unquoteGo(tv.Value.ExactString()); err == nil {
				f = uq
			}
			var rest []*Value
			if len(args) > 1 {
				rest = args[1:]
			}
			return []*Value{e.sprintfTerm(f, rest)}, true
		}
		return []*Value{scalar(shStr, e.fresh("sprintf", "Str"))}, true
	case "fmt:Errorf", "errors:New":
		v := scalar(shErr, e.fresh("err", "Int"))
		st.assume("(> " + v.T() + " 0)")
		// freshly made errors are not API errors
		st.assume(app(e.declFun(smtSym("sf.errLocal"), []string{"Int"}, "Bool"), v.T()))
		return []*Value{v}, true
	case "fmt:Sprint":
		return []*Value{scalar(shStr, e.fresh("sprint", "Str"))}, true
	case "sort:Sort", "sort:Stable":
		return fc.sortCall(c, st, full), true
	case "k8s.io/client-go/util/retry:RetryOnConflict":
		return fc.retryCall(c, st), true
	}
	return nil, false
}

// retryCall models retry.RetryOnConflict(backoff, func() error {...}): the closure runs one or
// more times; after each run the loop may stop with the error it returned or run it again.
// It is verified like a loop whose body is the closure (invariants under its loop ordinal).
func (fc *FuncCtx) retryCall(c *ast.CallExpr, st *State) []*Value {
	e := fc.e
	lit, ok := ast.Unparen(c.Args[1]).(*ast.FuncLit)
	if !ok {
		fc.unsupp(c, "RetryOnConflict with a non-literal function")
	}
	fc.eval(c.Args[0], st)
	ord := fc.loopOrd[lit]
	name := fmt.Sprintf("$retry%d", ord)
	st.ghost[name] = scalar(shErr, "0")
	ranName := fmt.Sprintf("$ran%d", ord)
	st.ghost[ranName] = scalar(shBool, "false")
	iter := func(h *State) ([]*State, []*State) {
		cf := &closureFrame{lit: lit, name: name}
		fc.closures = append(fc.closures, cf)
		savedFrames := fc.frames
		fc.frames = nil
		end := fc.execBlock(lit.Body, h)
		fc.frames = savedFrames
		fc.closures = fc.closures[:len(fc.closures)-1]
		if end != nil {
			fc.unsupp(lit, "closure body falls off the end")
		}
		var back, exit []*State
		for _, r := range cf.rets {
			r.ghost[ranName] = scalar(shBool, "true")
			back = append(back, r.clone())
			exit = append(exit, r)
		}
		return back, exit
	}
	out := fc.runLoop(lit, st, func(h *State) []string { return nil }, func(h *State) map[string]*Value { return nil }, iter)
	if out == nil {
		fc.unsupp(c, "RetryOnConflict never returns")
	}
	*st = *out
	res := st.ghost[name]
	delete(st.ghost, name)
	delete(st.ghost, ranName)
	e.assumed["retry.RetryOnConflict: runs the function one or more times and returns the error of the last run"] = true
	return []*Value{res}
}

func isSpecialCall(full string) bool {
	switch full {
	case "fmt:Sprintf", "fmt:Errorf", "errors:New", "fmt:Sprint", "sort:Sort", "sort:Stable", "k8s.io/client-go/util/retry:RetryOnConflict":
		return true
	}
	return false
}

func unquoteGo(s string) (string, error) {
	if len(s) >= 2 && s[0] == '"' {
		var out strings.Builder
		for i := 1; i < len(s)-1; i++ {
			if s[i] == '\\' && i+1 < len(s)-1 {
				i++
				switch s[i] {
				case 'n':
					out.WriteByte('\n')
				case 't':
					out.WriteByte('\t')
				default:
					out.WriteByte(s[i])
				}
				continue
			}
			out.WriteByte(s[i])
		}
		return out.String(), nil
	}
	return s, fmt.Errorf("not a string literal")
}

// sortCall models sort.Sort / sort.Stable applied to T(x) where x is an
// addressable slice and T has a sortspec: afterwards x is a permutation of its
// old contents, ordered by the key.
func (fc *FuncCtx) sortCall(c *ast.CallExpr, st *State, full string) []*Value {
	e := fc.e
	arg := ast.Unparen(c.Args[0])
	conv, ok := arg.(*ast.CallExpr)
	if !ok {
		fc.unsupp(c, "sort of non-conversion argument")
	}
	tv, ok := fc.info.Types[conv.Fun]
	if !ok || !tv.IsType() {
		fc.unsupp(c, "sort of non-conversion argument")
	}
	named, ok := types.Unalias(tv.Type).(*types.Named)
	if !ok {
		fc.unsupp(c, "sort of unnamed type")
	}
	specSrc, ok := e.sortSpecs[named.Obj().Name()]
	if !ok {
		fc.unsupp(c, "no sortspec for %s", named.Obj().Name())
	}
	lv := fc.lvalueOrValue(conv.Args[0], st)
	if _, isR := lv.(*rvalLV); isR {
		fc.unsupp(c, "sort argument is not addressable")
	}
	old := lv.load(st)
	nv := e.freshValue(old.Sh, "sorted")
	nv.L[0] = old.L[0]
	// permutation: ghost functions perm (new index -> old index) and pinv
	perm := e.fresh("perm", "(Array Int Int)")
	pinv := e.fresh("pinv", "(Array Int Int)")
	n := old.L[0]
	e.nfresh++
	i := smtSym(fmt.Sprintf("i!b%d", e.nfresh))
	e.nfresh++
	j := smtSym(fmt.Sprintf("j!b%d", e.nfresh))
	inR := func(x string) string { return and("(<= 0 "+x+")", "(< "+x+" "+n+")") }
	var elemEq []string
	for k := 1; k < len(nv.L); k++ {
		elemEq = append(elemEq, eq(sel(nv.L[k], i), sel(old.L[k], sel(perm, i))))
	}
	newPat, oldPat := "", ""
	if len(nv.L) > 1 {
		newPat = " :pattern ((select " + nv.L[1] + " " + i + "))"
		oldPat = " :pattern ((select " + old.L[1] + " " + i + "))"
	}
	st.assume("(forall ((" + i + " Int)) (! (=> " + inR(i) + " (and " + inR(sel(perm, i)) + " " + eq(sel(pinv, sel(perm, i)), i) + " " + and(elemEq...) + ")) :pattern ((select " + perm + " " + i + "))" + newPat + "))")
	st.assume("(forall ((" + i + " Int)) (! (=> " + inR(i) + " (and " + inR(sel(pinv, i)) + " " + eq(sel(perm, sel(pinv, i)), i) + ")) :pattern ((select " + pinv + " " + i + "))" + oldPat + "))")
	// ordering: the sortspec is a spec expression "le(a, b)" over elements a and b
	ex, err := parseSpec(specSrc)
	if err != nil {
		specFail("sortspec %s: %v", named.Obj().Name(), err)
	}
	env := fc.specEnv(st, fc.entry, c.Pos(), map[string]*Value{"a": e.sliceElem(nv, i), "b": e.sliceElem(nv, j)})
	ord := env.evalBool(ex)
	var pats []string
	for k := 1; k < len(nv.L) && k < 2; k++ {
		pats = append(pats, "(select "+nv.L[k]+" "+i+") (select "+nv.L[k]+" "+j+")")
	}
	pat := ""
	if len(pats) > 0 {
		pat = " :pattern (" + strings.Join(pats, " ") + ")"
	}
	st.assume("(forall ((" + i + " Int) (" + j + " Int)) (! (=> (and " + inR(i) + " " + inR(j) + " (< " + i + " " + j + ")) " + ord + ")" + pat + "))")
	lv.store(st, &Value{Sh: lv.shape(), L: nv.L})
	st.ghost["sortPerm"] = scalar(&Shape{Kind: KTotal, Key: shInt, elem: shInt, eng: e}, perm)
	st.ghost["sortPinv"] = scalar(&Shape{Kind: KTotal, Key: shInt, elem: shInt, eng: e}, pinv)
	e.assumed["sort.Sort/sort.Stable: result is a permutation ordered by the sortspec of "+named.Obj().Name()] = true
	return nil
}

// ---------------------------------------------------------------- loops

func (fc *FuncCtx) loopSpec(n ast.Node) (*LoopSpec, int) {
	ord := fc.loopOrd[n]
	if fc.contract != nil {
		if ls, ok := fc.contract.Loops[ord]; ok {
			return ls, ord
		}
	}
	return nil, ord
}

type loopRun struct {
	// head is called on the state at the loop head (after havoc) and runs one
	// iteration; it returns the states that flow back to the head (after the
	// post statement) and the states that leave the loop.
	iter func(h *State) (back []*State, exit []*State)
}

// modifiedBy determines what one iteration may modify, by two dry runs.
func (fc *FuncCtx) modifiedBy(st *State, run func(h *State) ([]*State, []*State)) *stateDiff {
	e := fc.e
	e.dry++
	savedFrames := fc.frames
	savedDefers := fc.defers
	defer func() {
		e.dry--
		fc.frames = savedFrames
		fc.defers = savedDefers
	}()
	collect := func(h *State) *stateDiff {
		h.storeLog = map[string]map[string]bool{}
		base := h.clone()
		fc.frames = nil
		back, exit := run(h)
		all := append(append([]*State{}, back...), exit...)
		return e.diffStates(base, all)
	}
	mark0 := e.nfresh
	d1 := collect(st.clone())
	// second run from a state in which everything found so far is unknown
	h := st.clone()
	mark := e.nfresh
	fc.havocDiff(h, d1, true)
	d2 := collect(h)
	// union
	seenV := map[types.Object]bool{}
	for _, v := range d2.vars {
		seenV[v] = true
	}
	for _, v := range d1.vars {
		if !seenV[v] {
			d2.vars = append(d2.vars, v)
		}
	}
	seenG := map[string]bool{}
	for _, g := range d2.ghost {
		seenG[g] = true
	}
	for _, g := range d1.ghost {
		if !seenG[g] {
			d2.ghost = append(d2.ghost, g)
		}
	}
	for k, m := range d1.heap {
		if _, ok := d2.heap[k]; !ok {
			d2.heap[k] = m
			m["*"] = true
			continue
		}
		// targets of the first iteration are terms over the pre-loop state: loop-invariant locations
		for r := range m {
			if r == "*" || r == "~fresh" || !mentionsFreshAfter(r, mark0) {
				d2.heap[k][r] = true
			} else if strings.HasPrefix(r, "?") {
				d2.heap[k]["*"] = true
			} else {
				d2.heap[k]["~fresh"] = true
			}
		}
	}
	// targets that mention symbols created after the mark are not loop-invariant:
	// they are treated as objects allocated by the iteration itself ("~fresh"),
	// which is checked by a loop-frame obligation at every such store
	for _, m := range d2.heap {
		for r := range m {
			if r != "*" && r != "~fresh" && mentionsFreshAfter(r, mark) {
				delete(m, r)
				if strings.HasPrefix(r, "?") {
					m["*"] = true // a predicate target that is not loop-invariant: everything unknown
				} else {
					m["~fresh"] = true
				}
			}
		}
	}
	d2.alloc = d2.alloc || d1.alloc
	return d2
}

func mentionsFreshAfter(term string, mark int) bool {
	for i := 0; i < len(term); i++ {
		if term[i] != '!' {
			continue
		}
		j := i + 1
		if j < len(term) && term[j] == 'b' {
			continue
		}
		n := 0
		k := j
		for k < len(term) && term[k] >= '0' && term[k] <= '9' {
			n = n*10 + int(term[k]-'0')
			k++
		}
		if k > j && n > mark {
			return true
		}
	}
	return false
}

// havocDiff makes everything in d unknown in state h.
func (fc *FuncCtx) havocDiff(h *State, d *stateDiff, whole bool) {
	e := fc.e
	allocBefore := h.alloc
	if fc.frameBound != "" {
		allocBefore = fc.frameBound
	}
	if d.alloc {
		na := e.fresh("alloc", "Int")
		h.assume("(>= " + na + " " + h.alloc + ")")
		h.alloc = na
	}
	for _, obj := range d.vars {
		cur, ok := h.vars[obj]
		if !ok {
			continue
		}
		nv := e.freshValue(cur.Sh, obj.Name())
		for _, f := range e.typeFacts(nv) {
			h.assume(f)
		}
		fc.allocFacts(h, nv)
		h.vars[obj] = nv
	}
	for _, g := range d.ghost {
		cur, ok := h.ghost[g]
		if !ok {
			continue
		}
		h.ghost[g] = e.freshValue(cur.Sh, "g."+g)
	}
	for _, k := range sortedKeysOf(d.heap) {
		targets := d.heap[k]
		sh := heapKeys[k]
		if whole || targets["*"] {
			e.heapHavocAll(h, k, sh)
			continue
		}
		hasPred := false
		for t := range targets {
			if strings.HasPrefix(t, "?") {
				hasPred = true
			}
		}
		if targets["~fresh"] || hasPred {
			// objects allocated before the loop (other than the stable targets and the objects inside a
			// loop-invariant predicate target) keep their contents
			oldArrs := e.heapLeaves(h, k, sh)
			sorts := e.leafSorts(sh)
			newArrs := make([]string, len(sorts))
			e.nfresh++
			r := smtSym(fmt.Sprintf("r!b%d", e.nfresh))
			guard := []string{"(< " + r + " " + allocBefore + ")"}
			for _, t := range sortedStrings(targets) {
				if strings.HasPrefix(t, "?") {
					guard = append(guard, not(strings.ReplaceAll(t[1:], "%R%", r)))
				} else if t != "~fresh" {
					guard = append(guard, not(eq(r, t)))
				}
			}
			for i, srt := range sorts {
				newArrs[i] = e.fresh("H."+k, "(Array Int "+srt+")")
				h.assume("(forall ((" + r + " Int)) (! (=> " + and(guard...) + " (= (select " + newArrs[i] + " " + r + ") (select " + oldArrs[i] + " " + r + "))) :pattern ((select " + newArrs[i] + " " + r + "))))")
			}
			h.heap[k] = newArrs
			m := h.storeLog[k]
			if m == nil {
				m = map[string]bool{}
				h.storeLog[k] = m
			}
			m["~fresh"] = true
			for _, t := range sortedStrings(targets) {
				if t != "~fresh" {
					m[t] = true
				}
			}
			continue
		}
		for _, r := range sortedStrings(targets) {
			e.heapHavocAt(h, k, sh, r)
		}
	}
}

func sortedKeysOf(m map[string]map[string]bool) []string {
	out := make([]string, 0, len(m))
	for k := range m {
		out = append(out, k)
	}
	sortStrings(out)
	return out
}

// runLoop is the common invariant-based treatment of all loop forms.
//
//	setup   : statements before the head have already been executed on st
//	implicit: extra facts assumed at the head (range index bounds ...)
//	iter    : executes one iteration from the head
func (fc *FuncCtx) runLoop(node ast.Node, st *State, implicit func(h *State) []string, bindSpec func(h *State) map[string]*Value, iter func(h *State) (back []*State, exit []*State)) *State {
	e := fc.e
	ls, ord := fc.loopSpec(node)
	pos := node.Pos()
	var bodyPos token.Pos
	switch x := node.(type) {
	case *ast.ForStmt:
		bodyPos = x.Body.Lbrace + 1
	case *ast.RangeStmt:
		bodyPos = x.Body.Lbrace + 1
	case *ast.FuncLit:
		bodyPos = x.Body.Lbrace + 1
	}
	// ghost statements attached to the end of an iteration belong to the iteration
	innerIter := iter
	iter = func(h *State) ([]*State, []*State) {
		back, exit := innerIter(h)
		for _, b := range back {
			if b != nil {
				fc.runGhostAt(b, "loopend", "", ord, "", bodyPos)
			}
		}
		return back, exit
	}
	d := fc.modifiedBy(st, iter)
	if ls != nil && ls.Frame == "none" {
		// no automatic frame for Go maps: the contents of every map of a type the body writes are unknown at
		// the loop head for ALL map objects (sound, weaker than the default, which demands that the body only
		// writes maps allocated inside the loop); what must survive is carried by the invariants alone
		for k := range d.heap {
			if strings.HasSuffix(k, ".dom") || strings.HasSuffix(k, ".val") {
				d.heap[k] = map[string]bool{"*": true}
			}
		}
	}
	if ls != nil && ls.Frame == "open" {
		// no automatic frame at all: every heap component the body writes is unknown at the loop head for
		// all objects; only the invariants survive (used for loops whose function may modify all(...) anyway)
		for k := range d.heap {
			d.heap[k] = map[string]bool{"*": true}
		}
	}
	checkInvs := func(s *State, kind string) {
		if ls == nil {
			return
		}
		for i, inv := range ls.Invs {
			if inv.Profile != "" && inv.Profile != fc.profile {
				continue
			}
			env := fc.specEnv(s, fc.entry, bodyPos, bindSpec(s))
			lbl := inv.Label
			if lbl == "" {
				lbl = fmt.Sprintf("i%d", i+1)
			}
			fc.oblige(s, kind, fmt.Sprintf("loop%d:%s", ord, lbl), pos, env.evalBool(inv.Expr), inv.Tags, inv.Src)
		}
	}
	fc.runGhostAt(st, "loopstart", "", ord, "", bodyPos)
	checkInvs(st, "inv-entry")
	h := st.clone()
	frameBound := st.alloc
	if ls != nil && ls.Frame == "entry" {
		frameBound = fc.entryAlloc
	}
	fc.frameBound = frameBound
	fc.havocDiff(h, d, false)
	fc.frameBound = ""
	guard := &loopGuard{ord: ord, allocHead: frameBound, keys: map[string]map[string]bool{}, pos: pos}
	for k, targets := range d.heap {
		hasPred := false
		for t := range targets {
			if strings.HasPrefix(t, "?") {
				hasPred = true
			}
		}
		if (targets["~fresh"] || hasPred) && !targets["*"] {
			guard.keys[k] = targets
		}
	}
	fc.loopGuards = append(fc.loopGuards, guard)
	defer func() { fc.loopGuards = fc.loopGuards[:len(fc.loopGuards)-1] }()
	for _, f := range implicit(h) {
		h.assume(f)
	}
	if ls != nil {
		for _, inv := range ls.Invs {
			if inv.Profile != "" && inv.Profile != fc.profile {
				continue
			}
			env := fc.specEnv(h, fc.entry, bodyPos, bindSpec(h))
			h.assume(env.evalBool(inv.Expr))
		}
	}
	fc.cover(h, fmt.Sprintf("loop%d-head", ord), pos)
	back, exit := iter(h)
	for _, b := range back {
		if b == nil {
			continue
		}
		checkInvs(b, "inv-step")
	}
	out := e.merge(exit)
	if out != nil {
		fc.runGhostAt(out, "loopexit", "", ord, "", bodyPos)
		fc.cover(out, fmt.Sprintf("loop%d-exit", ord), pos)
	}
	return out
}

func (fc *FuncCtx) execFor(x *ast.ForStmt, st *State) *State {
	if x.Init != nil {
		st = fc.execStmt(x.Init, st)
	}
	iter := func(h *State) ([]*State, []*State) {
		var exits []*State
		body := h
		if x.Cond != nil {
			c := fc.evalCond(x.Cond, h)
			ex := h.clone()
			ex.pc = append(ex.pc, not(c))
			exits = append(exits, ex)
			body.pc = append(body.pc, c)
		}
		fr := &frame{kind: "loop"}
		fc.frames = append(fc.frames, fr)
		end := fc.execBlock(x.Body, body)
		fc.frames = fc.frames[:len(fc.frames)-1]
		cont := fc.e.merge(append([]*State{end}, fr.cont...))
		var back []*State
		if cont != nil {
			if x.Post != nil {
				cont = fc.execStmt(x.Post, cont)
			}
			back = append(back, cont)
		}
		exits = append(exits, fr.brk...)
		return back, exits
	}
	return fc.runLoop(x, st, func(h *State) []string { return nil }, func(h *State) map[string]*Value { return nil }, iter)
}

func (fc *FuncCtx) execRange(x *ast.RangeStmt, st *State) *State {
	e := fc.e
	ls, ord := fc.loopSpec(x)
	rt := fc.info.TypeOf(x.X).Underlying()
	keyObj, valObj := fc.rangeVar(x.Key), fc.rangeVar(x.Value)
	switch rt.(type) {
	case *types.Slice:
		lst := fc.eval(x.X, st)
		if lst == nilValue {
			lst = e.zeroValue(e.shapeOf(fc.info.TypeOf(x.X)))
		}
		idxName := fmt.Sprintf("$idx%d", ord)
		listName := fmt.Sprintf("$list%d", ord)
		st.ghost[idxName] = scalar(shInt, "0")
		st.ghost[listName] = lst
		alias := ""
		if ls != nil && ls.Index != "" {
			alias = ls.Index
			st.ghost[alias] = scalar(shInt, "0")
		}
		if keyObj != nil {
			fc.declareVar(st, keyObj, scalar(shInt, "0"))
		}
		implicit := func(h *State) []string {
			i := h.ghost[idxName].T()
			fs := []string{"(<= 0 " + i + ")", "(<= " + i + " " + sliceLen(lst) + ")"}
			if alias != "" {
				if av, ok := h.ghost[alias]; ok {
					fs = append(fs, eq(av.T(), i))
				}
			}
			if keyObj != nil {
				if kv, ok := fc.readVar(h, keyObj); ok {
					fs = append(fs, eq(kv.T(), i))
				}
			}
			return fs
		}
		bind := func(h *State) map[string]*Value {
			m := map[string]*Value{}
			if ls != nil {
				if ls.Index != "" {
					m[ls.Index] = h.ghost[idxName]
				}
				if ls.List != "" {
					m[ls.List] = lst
				}
			}
			return m
		}
		iter := func(h *State) ([]*State, []*State) {
			i := h.ghost[idxName].T()
			if alias != "" {
				h.ghost[alias] = h.ghost[idxName]
			}
			c := "(< " + i + " " + sliceLen(lst) + ")"
			ex := h.clone()
			ex.pc = append(ex.pc, not(c))
			body := h
			body.pc = append(body.pc, c)
			if keyObj != nil {
				fc.writeVar(body, keyObj, scalar(shInt, i))
			}
			if valObj != nil {
				ev := e.sliceElem(lst, i)
				fc.readFacts(body, ev)
				fc.allocFacts(body, ev)
				fc.declareVar(body, valObj, ev)
			}
			fr := &frame{kind: "loop"}
			fc.frames = append(fc.frames, fr)
			end := fc.execBlock(x.Body, body)
			fc.frames = fc.frames[:len(fc.frames)-1]
			cont := e.merge(append([]*State{end}, fr.cont...))
			var back []*State
			if cont != nil {
				ni := "(+ " + cont.ghost[idxName].T() + " 1)"
				cont.ghost[idxName] = scalar(shInt, ni)
				if alias != "" {
					cont.ghost[alias] = cont.ghost[idxName]
				}
				if keyObj != nil {
					fc.writeVar(cont, keyObj, scalar(shInt, ni))
				}
				back = append(back, cont)
			}
			return back, append([]*State{ex}, fr.brk...)
		}
		return fc.runLoop(x, st, implicit, bind, iter)
	case *types.Map:
		m := fc.eval(x.X, st)
		msh := e.shapeOf(fc.info.TypeOf(x.X))
		if m == nilValue {
			m = e.zeroValue(msh)
		}
		ksort := e.leafSorts(msh.Key)[0]
		visName := fmt.Sprintf("$vis%d", ord)
		dom0 := e.mapDom(st, m)
		dk, _ := e.mapDomKey(msh)
		_ = dk
		setSh := &Shape{Kind: KSet, Key: msh.Key, eng: e}
		st.ghost[visName] = scalar(setSh, "((as const (Array "+ksort+" Bool)) false)")
		st.ghost[fmt.Sprintf("$dom%d", ord)] = scalar(setSh, dom0)
		qv := func() string { e.nfresh++; return smtSym(fmt.Sprintf("k!b%d", e.nfresh)) }
		implicit := func(h *State) []string {
			v := h.ghost[visName].T()
			k := qv()
			return []string{"(forall ((" + k + " " + ksort + ")) (! (=> (select " + v + " " + k + ") (select " + dom0 + " " + k + ")) :pattern ((select " + v + " " + k + "))))"}
		}
		bind := func(h *State) map[string]*Value {
			mm := map[string]*Value{}
			if ls != nil && ls.Visited != "" {
				mm[ls.Visited] = h.ghost[visName]
			}
			if ls != nil && ls.List != "" {
				mm[ls.List] = scalar(setSh, dom0)
			}
			return mm
		}
		iter := func(h *State) ([]*State, []*State) {
			v := h.ghost[visName].T()
			k := qv()
			done := "(forall ((" + k + " " + ksort + ")) (! (=> (select " + dom0 + " " + k + ") (select " + v + " " + k + ")) :pattern ((select " + dom0 + " " + k + ")) :pattern ((select " + v + " " + k + "))))"
			ex := h.clone()
			ex.pc = append(ex.pc, done)
			body := h
			kv := e.freshValue(msh.Key, "key")
			for _, f := range e.typeFacts(kv) {
				body.assume(f)
			}
			body.pc = append(body.pc, and(sel(dom0, kv.T()), not(sel(v, kv.T()))))
			if keyObj != nil {
				fc.declareVar(body, keyObj, kv)
			}
			if valObj != nil {
				ev := e.mapGetRaw(body, m, kv.T())
				fc.readFacts(body, ev)
				fc.allocFacts(body, ev)
				fc.declareVar(body, valObj, ev)
			}
			fr := &frame{kind: "loop"}
			fc.frames = append(fc.frames, fr)
			end := fc.execBlock(x.Body, body)
			fc.frames = fc.frames[:len(fc.frames)-1]
			cont := e.merge(append([]*State{end}, fr.cont...))
			var back []*State
			if cont != nil {
				cv := cont.ghost[visName]
				cont.ghost[visName] = scalar(cv.Sh, sto(cv.T(), kv.T(), "true"))
				back = append(back, cont)
			}
			return back, append([]*State{ex}, fr.brk...)
		}
		return fc.runLoop(x, st, implicit, bind, iter)
	}
	fc.unsupp(x, "range over %s", rt)
	return nil
}

func (fc *FuncCtx) rangeVar(x ast.Expr) types.Object {
	if x == nil {
		return nil
	}
	id, ok := x.(*ast.Ident)
	if !ok || id.Name == "_" {
		return nil
	}
	if obj := fc.info.Defs[id]; obj != nil {
		return obj
	}
	return fc.info.Uses[id]
}

var _ = packages.NeedName

// loopGuard records, for a loop being verified, the heap keys that the body is
// allowed to modify only at objects allocated by the current iteration.
type loopGuard struct {
	ord       int
	allocHead string
	keys      map[string]map[string]bool
	pos       token.Pos
}

// storeHook is installed as Engine.onStore while a function is verified.
func (fc *FuncCtx) storeHook(st *State, key, ref string) {
	if fc.e.dry > 0 {
		return
	}
	for _, g := range fc.loopGuards {
		targets, ok := g.keys[key]
		if !ok || targets[ref] {
			continue
		}
		alts := []string{"(>= " + ref + " " + g.allocHead + ")", eq(ref, "0")}
		for _, t := range sortedStrings(targets) {
			if strings.HasPrefix(t, "?") {
				alts = append(alts, strings.ReplaceAll(t[1:], "%R%", ref))
			} else if t != "~fresh" && t != "*" {
				alts = append(alts, eq(ref, t))
			}
		}
		goal := or(alts...)
		fc.oblige(st, "loop-frame", fmt.Sprintf("loop%d:%s", g.ord, key), g.pos, goal, nil,
			"a store to "+key+" inside the loop must target an object allocated since the loop was entered (or a loop-invariant location)")
	}
}

// predStoreHook: a callee inside a loop may modify every object satisfying a predicate; each such object
// must be one the loop head did not promise to keep (allocated in the loop, a stable target, or inside a
// loop-invariant predicate target).  Identical predicate terms need no obligation.
func (fc *FuncCtx) predStoreHook(st *State, key, pt string) {
	if fc.e.dry > 0 {
		return
	}
	for _, g := range fc.loopGuards {
		targets, ok := g.keys[key]
		if !ok || targets[pt] {
			continue
		}
		fc.e.nfresh++
		r := smtSym(fmt.Sprintf("r!b%d", fc.e.nfresh))
		alts := []string{"(>= " + r + " " + g.allocHead + ")", eq(r, "0")}
		for _, t := range sortedStrings(targets) {
			if strings.HasPrefix(t, "?") {
				alts = append(alts, strings.ReplaceAll(t[1:], "%R%", r))
			} else if t != "~fresh" && t != "*" {
				alts = append(alts, eq(r, t))
			}
		}
		goal := "(forall ((" + r + " Int)) (=> " + strings.ReplaceAll(pt[1:], "%R%", r) + " " + or(alts...) + "))"
		fc.oblige(st, "loop-frame", fmt.Sprintf("loop%d:%s:maps", g.ord, key), g.pos, goal, nil,
			"every object a callee may modify inside the loop must be allocated since the loop was entered or be a loop-invariant target")
	}
}

// evalRequiresThroughIface evaluates a precondition clause; a clause that selects fields of the
// receiver cannot be evaluated when the call goes through an interface value (the contract is the
// implementation's, shared via "sameas"): such a clause is the implementation's own well-formedness
// and is skipped (recorded as an assumption).
func (fc *FuncCtx) evalRequiresThroughIface(env *SpecEnv, r *Clause) (goal string, skipped bool) {
	defer func() {
		if rec := recover(); rec != nil {
			if se, ok := rec.(specErr); ok && strings.Contains(string(se), "in iface") {
				skipped = true
				return
			}
			panic(rec)
		}
	}()
	return env.evalBool(r.Expr), false
}

func (fc *FuncCtx) evalEnsuresForCaller(env *SpecEnv, en *Clause) (t string, ok bool) {
	defer func() {
		if rec := recover(); rec != nil {
			if se, isSpec := rec.(specErr); isSpec && strings.HasPrefix(string(se), "unknown name") {
				ok = false
				return
			}
			panic(rec)
		}
	}()
	return env.evalBool(en.Expr), true
}

// valueOnly reports whether every argument is a number, boolean, string or error.
func valueOnly(args []*Value) bool {
	for _, a := range args {
		if a == nil || a == nilValue {
			continue
		}
		switch a.Sh.Kind {
		case KInt, KBool, KStr, KErr:
		default:
			return false
		}
	}
	return true
}
