package main

import (
	"fmt"
	"go/token"
	"go/ast"
	"go/types"
	"sort"
	"strings"

	"golang.org/x/tools/go/packages"
)

type Obligation struct {
	Name    string
	Kind    string
	Tags    []string
	Func    string
	Profile string
	Facts   []string
	PC      []string
	Goal    string
	Pos     string
	Src     string // source text of the clause / expression
	// filled by the solver stage
	Result  string // unsat | sat | unknown | timeout | error
	Solver  string
	Seconds float64
	Output  string
	SMTPath string
	SMTHash string
	Cached  bool
}

type Engine struct {
	mergedContracts map[string]*Contract // sameas + own clauses, by key
	trustedUsed     map[string]bool      // pkgpath:key of in-repository trusted functions whose contract this run applied
	fset       *token.FileSet
	pkgs       map[string]*packages.Package
	shapes     map[string]*Shape
	fieldNames map[string]bool
	typedFields map[string]bool
	decls      map[string]string
	declOrder  []string
	nfresh     int
	strLits    map[string]string
	strOrder   []string
	cfiles     []*ContractFile
	contracts  map[string]*Contract // "pkgpath:Key"
	specFuncs  map[string]*SpecFunc
	consts     map[string]string
	axioms     []*Axiom
	lemmas     []*Lemma
	globals    map[string]*GhostGlobal
	dropped    map[string]bool
	opaque     map[string]bool
	sortSpecs  map[string]string
	typeTags   map[string]int
	tagOrder   []string
	obls       []*Obligation
	dry        int
	notes      map[string]bool // dropped calls, abstractions, trusted … for the evidence
	assumed    map[string]bool
	axiomTerms []axiomTerm
	uf         map[string]bool
	curFunc    string
	bytesAxiom bool
	boxStrAxiom bool
	funcLemmas map[string][]string
	onStore    func(st *State, key, ref string)
	onBaseRefArray func(arr string)
	onBaseSliceRefArray func(arr string)
	onPredStore func(st *State, key, predTarget string)
	// noAssume: obligations (by name) whose clause is NOT assumed after its program point.  Used for the
	// second pass of a property check: a clause of ANOTHER property that failed must not mask this property's
	// obligations downstream (everything after a false assumption would hold vacuously).
	noAssume map[string]bool
	baseLocals map[string][]localEntry // recorded with the baseline: locals of every function under contract (rename tolerance)
	curLocals  map[string][]localEntry // of this run
	globalInits map[string]*GlobalInit // pinned initialisers of package-level variables ("pkgpath:name")
	litFuncs map[*ast.FuncDecl]*types.Func   // function literals verified as functions of their own (F$litN)
	litNodes map[*ast.FuncDecl]*ast.FuncLit
	funcFacts  map[string][]string // per function: facts about the entry heap, added to every obligation of that function
}

type axiomTerm struct {
	name string
	term string
	src  string
	only string
}

func newEngine() *Engine {
	return &Engine{
		pkgs: map[string]*packages.Package{}, shapes: map[string]*Shape{}, fieldNames: map[string]bool{}, typedFields: map[string]bool{},
		decls: map[string]string{}, strLits: map[string]string{}, contracts: map[string]*Contract{},
		specFuncs: map[string]*SpecFunc{}, consts: map[string]string{}, globals: map[string]*GhostGlobal{},
		dropped: map[string]bool{}, opaque: map[string]bool{}, typeTags: map[string]int{}, notes: map[string]bool{}, assumed: map[string]bool{},
		sortSpecs: map[string]string{}, uf: map[string]bool{},
	}
}

func (e *Engine) declare(name, decl string) {
	if _, ok := e.decls[name]; ok {
		return
	}
	e.decls[name] = decl
	e.declOrder = append(e.declOrder, name)
}

func (e *Engine) declConst(name, sort string) string {
	e.declare(name, "(declare-fun "+name+" () "+sort+")")
	return name
}

func (e *Engine) declFun(name string, args []string, ret string) string {
	e.declare(name, "(declare-fun "+name+" ("+strings.Join(args, " ")+") "+ret+")")
	e.uf[name] = true
	return name
}

func smtSym(s string) string {
	ok := true
	for _, r := range s {
		if !(r >= 'a' && r <= 'z' || r >= 'A' && r <= 'Z' || r >= '0' && r <= '9' || strings.ContainsRune("_.!$-", r)) {
			ok = false
			break
		}
	}
	if ok && s != "" && !(s[0] >= '0' && s[0] <= '9') {
		return s
	}
	return "|" + strings.ReplaceAll(s, "|", "_") + "|"
}

func (e *Engine) fresh(hint, sort string) string {
	e.nfresh++
	name := smtSym(fmt.Sprintf("%s!%d", sanitize(hint), e.nfresh))
	return e.declConst(name, sort)
}

func (e *Engine) strLit(s string) string {
	if sym, ok := e.strLits[s]; ok {
		return sym
	}
	sym := smtSym(fmt.Sprintf("str.%d.%s", len(e.strLits), sanitize(s)))
	if len(sym) > 60 {
		sym = smtSym(fmt.Sprintf("str.%d", len(e.strLits)))
	}
	e.strLits[s] = sym
	e.strOrder = append(e.strOrder, s)
	e.declConst(sym, "Str")
	return sym
}

func (e *Engine) typeTag(t types.Type) string {
	k := types.TypeString(types.Unalias(t), nil)
	if n, ok := e.typeTags[k]; ok {
		return fmt.Sprint(n)
	}
	n := len(e.typeTags) + 1
	e.typeTags[k] = n
	e.tagOrder = append(e.tagOrder, k)
	return fmt.Sprint(n)
}

func (e *Engine) note(s string) { e.notes[s] = true }

// ---------------------------------------------------------------- state

type State struct {
	vars     map[types.Object]*Value
	ghost    map[string]*Value
	heap     map[string][]string        // heap key -> current leaf arrays (absent = base arrays)
	storeLog map[string]map[string]bool // heap key -> ref terms stored to ("*" = whole array havoc)
	alloc    string
	facts    []string
	pc       []string
}

func (s *State) clone() *State {
	n := &State{
		vars: make(map[types.Object]*Value, len(s.vars)), ghost: make(map[string]*Value, len(s.ghost)),
		heap: make(map[string][]string, len(s.heap)), storeLog: make(map[string]map[string]bool, len(s.storeLog)),
		alloc: s.alloc,
		facts: append(make([]string, 0, len(s.facts)+8), s.facts...),
		pc:    append(make([]string, 0, len(s.pc)+4), s.pc...),
	}
	for k, v := range s.vars {
		n.vars[k] = v
	}
	for k, v := range s.ghost {
		n.ghost[k] = v
	}
	for k, v := range s.heap {
		n.heap[k] = v
	}
	for k, v := range s.storeLog {
		m := make(map[string]bool, len(v))
		for a := range v {
			m[a] = true
		}
		n.storeLog[k] = m
	}
	return n
}

func (s *State) assume(f string) {
	if f == "true" || f == "" {
		return
	}
	s.facts = append(s.facts, f)
}

func (s *State) pathCond() string { return and(s.pc...) }

// heapKeyLeaves returns the current leaf arrays (each lifted by Ref) for a heap key.
func (e *Engine) heapLeaves(st *State, key string, sh *Shape) []string {
	if l, ok := st.heap[key]; ok {
		return l
	}
	return e.baseHeap(key, sh)
}

func (e *Engine) baseHeap(key string, sh *Shape) []string {
	sorts := e.leafSorts(sh)
	out := make([]string, len(sorts))
	isRef := e.leafRefs(sh)
	for i, s := range sorts {
		name := smtSym(fmt.Sprintf("H.%s.%d", key, i))
		if len(sorts) == 1 {
			name = smtSym("H." + key)
		}
		out[i] = e.declConst(name, "(Array Int "+s+")")
		if isSl := e.leafSliceRefs(sh); len(isSl) == len(sorts) && isSl[i] && s == "(Array Int Int)" && e.onBaseSliceRefArray != nil {
			e.onBaseSliceRefArray(out[i])
		}
		if len(isRef) == len(sorts) && isRef[i] && e.onBaseRefArray != nil {
			e.onBaseRefArray(out[i])
		}
	}
	return out
}

func (e *Engine) heapRead(st *State, key string, sh *Shape, ref string) *Value {
	arrs := e.heapLeaves(st, key, sh)
	l := make([]string, len(arrs))
	for i, a := range arrs {
		l[i] = sel(a, ref)
	}
	return &Value{Sh: sh, L: l}
}

func (e *Engine) heapWrite(st *State, key string, sh *Shape, ref string, v *Value) {
	arrs := e.heapLeaves(st, key, sh)
	if len(v.L) != len(arrs) {
		panic(fmt.Sprintf("heapWrite %s: %d leaves vs %d", key, len(v.L), len(arrs)))
	}
	n := make([]string, len(arrs))
	changed := false
	for i, a := range arrs {
		if v.L[i] == sel(a, ref) {
			n[i] = a
			continue
		}
		n[i] = sto(a, ref, v.L[i])
		changed = true
	}
	if !changed {
		return
	}
	st.heap[key] = n
	e.logStore(st, key, ref)
}

func (e *Engine) logStore(st *State, key, ref string) {
	if e.onStore != nil && ref != "*" && ref != "~fresh" && !strings.HasPrefix(ref, "?") {
		e.onStore(st, key, ref)
	}
	m := st.storeLog[key]
	if m == nil {
		m = map[string]bool{}
		st.storeLog[key] = m
	}
	m[ref] = true
}

// heapHavocAll replaces every leaf array of a key by a fresh array.
func (e *Engine) heapHavocAll(st *State, key string, sh *Shape) {
	sorts := e.leafSorts(sh)
	n := make([]string, len(sorts))
	for i, s := range sorts {
		n[i] = e.fresh("H."+key, "(Array Int "+s+")")
	}
	st.heap[key] = n
	e.logStore(st, key, "*")
}

// heapHavocWhere makes the component unknown for the objects satisfying pred (a term over the
// reference, evaluated by the caller in the pre-state) and keeps it for all other objects.
func (e *Engine) heapHavocWhere(st *State, key string, sh *Shape, pred func(ref string) string) {
	old := e.heapLeaves(st, key, sh)
	sorts := e.leafSorts(sh)
	n := make([]string, len(sorts))
	e.nfresh++
	r := smtSym(fmt.Sprintf("r!b%d", e.nfresh))
	p := pred(r)
	for i, s := range sorts {
		n[i] = e.fresh("H."+key, "(Array Int "+s+")")
		st.assume("(forall ((" + r + " Int)) (! (=> (not " + p + ") (= (select " + n[i] + " " + r + ") (select " + old[i] + " " + r + "))) :pattern ((select " + n[i] + " " + r + "))))")
	}
	st.heap[key] = n
	// logged as a predicate target ("?" + the predicate over the placeholder %R%): a loop whose body
	// contains this havoc keeps, at its head, the objects outside the predicate when the predicate is
	// loop-invariant (see havocDiff), and falls back to "everything unknown" otherwise
	pt := "?" + pred("%R%")
	if e.onPredStore != nil {
		e.onPredStore(st, key, pt)
	}
	e.logStore(st, key, pt)
}

// heapHavocAt replaces the value at one reference by a fresh value.
func (e *Engine) heapHavocAt(st *State, key string, sh *Shape, ref string) *Value {
	fv := e.freshValue(sh, "hv."+key)
	arrs := e.heapLeaves(st, key, sh)
	n := make([]string, len(arrs))
	for i, a := range arrs {
		n[i] = sto(a, ref, fv.L[i])
	}
	st.heap[key] = n
	e.logStore(st, key, ref)
	for _, f := range e.typeFacts(fv) {
		st.assume(f)
	}
	return fv
}

// alloc returns a fresh non-nil reference.
func (e *Engine) allocRef(st *State, hint string) string {
	r := e.fresh(hint, "Int")
	st.assume(eq(r, st.alloc))
	na := e.fresh("alloc", "Int")
	st.assume(eq(na, "(+ "+st.alloc+" 1)"))
	st.alloc = na
	return r
}

// heap shapes are registered so that generic operations (merge, havoc, loop
// frames) know the shape of each key.
type heapKeyInfo struct {
	sh *Shape
}

var heapKeys = map[string]*Shape{}

func (e *Engine) regKey(key string, sh *Shape) string {
	if _, ok := heapKeys[key]; !ok {
		heapKeys[key] = sh
	}
	return key
}

// fieldKey computes the heap key for field fname of struct shape ssh.
func (e *Engine) fieldKey(ssh *Shape, fname string, fsh *Shape) string {
	return e.regKey(ssh.Name+"."+fname, fsh)
}

// boxKey is the heap key for pointers to non-struct values.
func (e *Engine) boxKey(sh *Shape) string {
	name := "box." + sanitize(sh.String())
	if sh.Go != nil {
		name = "box." + typeKey(sh.Go)
	}
	return e.regKey(name, sh)
}

// readStructAt reads a whole struct value stored at a reference.
func (e *Engine) readStructAt(st *State, ssh *Shape, ref string) *Value {
	var l []string
	for _, f := range ssh.Fields {
		fv := e.readFieldAt(st, ssh, f, ref)
		l = append(l, fv.L...)
	}
	return &Value{Sh: ssh, L: l}
}

func (e *Engine) readFieldAt(st *State, ssh *Shape, f *Field, ref string) *Value {
	if f.Embedded && f.Sh.Kind == KStruct {
		return e.readStructAt(st, f.Sh, ref)
	}
	return e.heapRead(st, e.fieldKey(ssh, f.Name, f.Sh), f.Sh, ref)
}

func (e *Engine) writeStructAt(st *State, ssh *Shape, ref string, v *Value) {
	o := 0
	for _, f := range ssh.Fields {
		n := e.nLeaves(f.Sh)
		e.writeFieldAt(st, ssh, f, ref, &Value{Sh: f.Sh, L: v.L[o : o+n]})
		o += n
	}
}

func (e *Engine) writeFieldAt(st *State, ssh *Shape, f *Field, ref string, v *Value) {
	if f.Embedded && f.Sh.Kind == KStruct {
		e.writeStructAt(st, f.Sh, ref, v)
		return
	}
	e.heapWrite(st, e.fieldKey(ssh, f.Name, f.Sh), f.Sh, ref, v)
}

func (e *Engine) findField(ssh *Shape, name string) *Field {
	for _, f := range ssh.Fields {
		if f.Name == name {
			return f
		}
	}
	return nil
}

// deref reads the value a pointer points to.
func (e *Engine) deref(st *State, p *Value) *Value {
	es := p.Sh.Elem()
	if es == nil {
		panic("deref of untyped ref")
	}
	if es.Kind == KStruct {
		return e.readStructAt(st, es, p.T())
	}
	return e.heapRead(st, e.boxKey(es), es, p.T())
}

func (e *Engine) storeDeref(st *State, p *Value, v *Value) {
	es := p.Sh.Elem()
	if es.Kind == KStruct {
		e.writeStructAt(st, es, p.T(), v)
		return
	}
	e.heapWrite(st, e.boxKey(es), es, p.T(), v)
}

// map heap ------------------------------------------------------------

func (e *Engine) mapDomKey(msh *Shape) (string, *Shape) {
	sh := &Shape{Kind: KSet, Key: msh.Key, eng: e}
	return e.regKey(msh.Name+".dom", sh), sh
}

func (e *Engine) mapValShape(msh *Shape) *Shape {
	// value leaves lifted by the key sort
	return &Shape{Kind: KOpaque, Name: "mapval", eng: e, sorts: liftSorts(e.leafSorts(msh.Elem()), e.leafSorts(msh.Key)[0])}
}

func liftSorts(sorts []string, by string) []string {
	out := make([]string, len(sorts))
	for i, s := range sorts {
		out[i] = "(Array " + by + " " + s + ")"
	}
	return out
}

func (e *Engine) mapValKey(msh *Shape) (string, *Shape) {
	k := msh.Name + ".val"
	if sh, ok := heapKeys[k]; ok {
		return k, sh
	}
	sh := e.mapValShape(msh)
	return e.regKey(k, sh), sh
}

func (e *Engine) mapDom(st *State, m *Value) string {
	k, sh := e.mapDomKey(m.Sh)
	d := e.heapRead(st, k, sh, m.T()).T()
	// a nil map has an empty domain
	return ite(eq(m.T(), "0"), "((as const (Array "+e.leafSorts(m.Sh.Key)[0]+" Bool)) false)", d)
}

func (e *Engine) mapHas(st *State, m *Value, key string) string {
	k, sh := e.mapDomKey(m.Sh)
	d := e.heapRead(st, k, sh, m.T()).T()
	return and(not(eq(m.T(), "0")), sel(d, key))
}

// mapGet returns the stored value for key (unspecified when absent; callers
// wrap with the zero value where Go semantics demands it).
func (e *Engine) mapGetRaw(st *State, m *Value, key string) *Value {
	k, sh := e.mapValKey(m.Sh)
	arrs := e.heapRead(st, k, sh, m.T())
	l := make([]string, len(arrs.L))
	for i, a := range arrs.L {
		l[i] = sel(a, key)
	}
	return &Value{Sh: m.Sh.Elem(), L: l}
}

func (e *Engine) mapGet(st *State, m *Value, key string) *Value {
	raw := e.mapGetRaw(st, m, key)
	if e.nLeaves(raw.Sh) == 0 {
		return raw
	}
	z := e.zeroValue(raw.Sh)
	has := and(not(eq(m.T(), "0")), e.mapHas(st, m, key))
	l := make([]string, len(raw.L))
	for i := range raw.L {
		l[i] = ite(has, raw.L[i], z.L[i])
	}
	return &Value{Sh: raw.Sh, L: l}
}

func (e *Engine) mapSet(st *State, m *Value, key string, v *Value) {
	dk, dsh := e.mapDomKey(m.Sh)
	dom := e.heapRead(st, dk, dsh, m.T()).T()
	e.heapWrite(st, dk, dsh, m.T(), scalar(dsh, sto(dom, key, "true")))
	if e.nLeaves(m.Sh.Elem()) > 0 {
		vk, vsh := e.mapValKey(m.Sh)
		arrs := e.heapRead(st, vk, vsh, m.T())
		l := make([]string, len(arrs.L))
		for i, a := range arrs.L {
			l[i] = sto(a, key, v.L[i])
		}
		e.heapWrite(st, vk, vsh, m.T(), &Value{Sh: vsh, L: l})
	}
}

func (e *Engine) mapDelete(st *State, m *Value, key string) {
	dk, dsh := e.mapDomKey(m.Sh)
	dom := e.heapRead(st, dk, dsh, m.T()).T()
	// delete on a nil map is a no-op
	nd := ite(eq(m.T(), "0"), dom, sto(dom, key, "false"))
	e.heapWrite(st, dk, dsh, m.T(), scalar(dsh, nd))
}

func (e *Engine) newMap(st *State, msh *Shape) *Value {
	r := e.allocRef(st, "map")
	m := scalar(msh, r)
	dk, dsh := e.mapDomKey(msh)
	e.heapWrite(st, dk, dsh, r, scalar(dsh, "((as const (Array "+e.leafSorts(msh.Key)[0]+" Bool)) false)"))
	return m
}

// ---------------------------------------------------------------- merging

func commonPrefix(lists [][]string) int {
	if len(lists) == 0 {
		return 0
	}
	n := len(lists[0])
	for _, l := range lists[1:] {
		if len(l) < n {
			n = len(l)
		}
	}
	for i := 0; i < n; i++ {
		for _, l := range lists[1:] {
			if l[i] != lists[0][i] {
				return i
			}
		}
	}
	return n
}

// merge joins several states that descend from a common ancestor.
func (e *Engine) merge(states []*State) *State {
	var live []*State
	for _, s := range states {
		if s != nil {
			live = append(live, s)
		}
	}
	if len(live) == 0 {
		return nil
	}
	if len(live) == 1 {
		return live[0]
	}
	var fl, pl [][]string
	for _, s := range live {
		fl = append(fl, s.facts)
		pl = append(pl, s.pc)
	}
	fp := commonPrefix(fl)
	pp := commonPrefix(pl)
	out := &State{
		vars: map[types.Object]*Value{}, ghost: map[string]*Value{}, heap: map[string][]string{},
		storeLog: map[string]map[string]bool{},
		facts:    append([]string(nil), live[0].facts[:fp]...),
		pc:       append([]string(nil), live[0].pc[:pp]...),
	}
	guards := make([]string, len(live))
	for i, s := range live {
		guards[i] = and(s.pc[pp:]...)
		extra := and(s.facts[fp:]...)
		out.assume(imp(guards[i], extra))
	}
	out.assume(or(guards...))
	mergeLeaves := func(hint string, sorts []string, get func(s *State) []string) []string {
		first := get(live[0])
		same := true
		for _, s := range live[1:] {
			l := get(s)
			for i := range first {
				if l[i] != first[i] {
					same = false
				}
			}
		}
		if same {
			return first
		}
		res := make([]string, len(first))
		for i := range first {
			diff := false
			for _, s := range live[1:] {
				if get(s)[i] != first[i] {
					diff = true
				}
			}
			if !diff {
				res[i] = first[i]
				continue
			}
			c := e.fresh(hint, sorts[i])
			for j, s := range live {
				out.assume(imp(guards[j], eq(c, get(s)[i])))
			}
			res[i] = c
		}
		return res
	}
	// variables present in all states
	for obj, v := range live[0].vars {
		ok := true
		for _, s := range live[1:] {
			if _, has := s.vars[obj]; !has {
				ok = false
			}
		}
		if !ok {
			continue
		}
		o := obj
		l := mergeLeaves(obj.Name(), e.leafSorts(v.Sh), func(s *State) []string { return s.vars[o].L })
		out.vars[obj] = &Value{Sh: v.Sh, L: l}
	}
	for name, v := range live[0].ghost {
		ok := true
		for _, s := range live[1:] {
			if _, has := s.ghost[name]; !has {
				ok = false
			}
		}
		if !ok {
			continue
		}
		nm := name
		l := mergeLeaves("g."+name, e.leafSorts(v.Sh), func(s *State) []string { return s.ghost[nm].L })
		out.ghost[name] = &Value{Sh: v.Sh, L: l}
	}
	keys := map[string]bool{}
	for _, s := range live {
		for k := range s.heap {
			keys[k] = true
		}
		for k, m := range s.storeLog {
			om := out.storeLog[k]
			if om == nil {
				om = map[string]bool{}
				out.storeLog[k] = om
			}
			for r := range m {
				om[r] = true
			}
		}
	}
	for _, k := range sortedStrings(keys) {
		sh := heapKeys[k]
		kk := k
		sorts := liftSorts(e.leafSorts(sh), "Int")
		l := mergeLeaves("H."+k, sorts, func(s *State) []string { return e.heapLeaves(s, kk, sh) })
		out.heap[k] = l
	}
	al := mergeLeaves("alloc", []string{"Int"}, func(s *State) []string { return []string{s.alloc} })
	out.alloc = al[0]
	return out
}

// diffState lists what differs between an earlier state a and a later state b
// (used by the loop dry run to compute the set of things a loop modifies).
type stateDiff struct {
	vars  []types.Object
	ghost []string
	heap  map[string]map[string]bool // key -> store targets
	alloc bool
}

func (e *Engine) diffStates(a *State, bs []*State) *stateDiff {
	d := &stateDiff{heap: map[string]map[string]bool{}}
	seenV := map[types.Object]bool{}
	seenG := map[string]bool{}
	for _, b := range bs {
		if b == nil {
			continue
		}
		for obj, va := range a.vars {
			vb, ok := b.vars[obj]
			if !ok || seenV[obj] {
				continue
			}
			for i := range va.L {
				if va.L[i] != vb.L[i] {
					seenV[obj] = true
					d.vars = append(d.vars, obj)
					break
				}
			}
		}
		for name, va := range a.ghost {
			vb, ok := b.ghost[name]
			if !ok || seenG[name] {
				continue
			}
			for i := range va.L {
				if va.L[i] != vb.L[i] {
					seenG[name] = true
					d.ghost = append(d.ghost, name)
					break
				}
			}
		}
		for k, lb := range b.heap {
			la := e.heapLeaves(a, k, heapKeys[k])
			changed := false
			for i := range la {
				if la[i] != lb[i] {
					changed = true
				}
			}
			if !changed {
				continue
			}
			m := d.heap[k]
			if m == nil {
				m = map[string]bool{}
				d.heap[k] = m
			}
			pre := a.storeLog[k]
			for r := range b.storeLog[k] {
				if !pre[r] {
					m[r] = true
				}
			}
			if len(b.storeLog[k]) == 0 {
				m["*"] = true
			}
		}
		if a.alloc != b.alloc {
			d.alloc = true
		}
	}
	sort.Slice(d.vars, func(i, j int) bool { return d.vars[i].Pos() < d.vars[j].Pos() })
	sort.Strings(d.ghost)
	return d
}
