package main

import (
	"bytes"
	"fmt"
	"go/ast"
	"go/printer"
	"go/token"
	"go/types"
	"regexp"
	"sort"
	"strconv"
	"strings"

	"golang.org/x/tools/go/packages"
)

type unsupported string

func (fc *FuncCtx) unsupp(n ast.Node, format string, a ...interface{}) {
	pos := ""
	if n != nil {
		pos = fc.e.fset.Position(n.Pos()).String()
	}
	panic(unsupported(fmt.Sprintf("UNSUPPORTED %s at %s", fmt.Sprintf(format, a...), pos)))
}

type frame struct {
	kind string // "loop" | "switch"
	brk  []*State
	cont []*State
}

type deferred struct {
	call *ast.CallExpr
	args []*Value
	recv *Value
	lit  *ast.FuncLit
}

type FuncCtx struct {
	e        *Engine
	pkg      *packages.Package
	info     *types.Info
	decl     *ast.FuncDecl
	fn       *types.Func
	sig      *types.Signature
	contract *Contract
	profile  string
	name     string // display name pkg.Func
	entry    *State
	boxed    map[types.Object]bool
	chanCalls map[ast.Node]*ast.CallExpr
	frames   []*frame
	defers   []deferred
	loopOrd  map[ast.Node]int
	callOrd  map[*ast.CallExpr]callSite
	retOrd   map[*ast.ReturnStmt]int
	results  []*types.Var
	resNames []string
	recvVar  *types.Var
	exitSeen map[string]int
	retVals  []*Value // values being returned (for spec evaluation at exit)
	inlineDepth int
	curState *State
	reboundSlices map[string]*Value
	loopGuards []*loopGuard
	ghostNames map[string]*Value
	entryAlloc string
	closures   []*closureFrame
	inlines    []*inlineFrame
	globalInitDone map[string]bool
	frameBound string
}

type callSite struct {
	callee string
	n      int
}

func exprText(fset *token.FileSet, n ast.Node) string {
	var b bytes.Buffer
	printer.Fprint(&b, fset, n)
	s := b.String()
	s = regexp.MustCompile(`\s+`).ReplaceAllString(s, " ")
	if len(s) > 80 {
		s = s[:77] + "..."
	}
	return s
}

// ---------------------------------------------------------------- obligations

func (fc *FuncCtx) oblige(st *State, kind, anchor string, pos token.Pos, goal string, tags []string, src string) {
	e := fc.e
	if e.dry > 0 {
		return
	}
	if goal == "true" {
		// trivially true obligations are still counted (discharged syntactically)
	}
	o := &Obligation{
		Kind: kind, Tags: tags, Func: fc.name, Profile: fc.profile,
		Facts: append([]string(nil), st.facts...), PC: append([]string(nil), st.pc...),
		Goal: goal, Src: src,
	}
	o.Name = fc.name + "/" + kind + ":" + anchor
	if pos.IsValid() {
		p := e.fset.Position(pos)
		o.Pos = fmt.Sprintf("%s:%d", p.Filename, p.Line)
	}
	e.obls = append(e.obls, o)
}

// cover records a vacuity probe: the assumptions at this point must not be contradictory
// (a solver answering unsat for the goal "false" is reported as a contract fault).
func (fc *FuncCtx) cover(st *State, anchor string, pos token.Pos) {
	fc.oblige(st, "cover", anchor, pos, "false", nil, "vacuity probe: the assumptions at this point must be satisfiable")
}

// safety obligation on a Go expression node
func (fc *FuncCtx) safety(st *State, kind string, n ast.Node, goal string) {
	if goal == "true" {
		return
	}
	fc.oblige(st, kind, exprText(fc.e.fset, n), n.Pos(), goal, nil, exprText(fc.e.fset, n))
}

// ---------------------------------------------------------------- function verification

func (e *Engine) contractFor(pkgPath, key string) *Contract {
	c := e.contracts[pkgPath+":"+key]
	if c != nil && c.SameAs != "" {
		target := c.SameAs
		if !strings.Contains(target, ":") {
			target = pkgPath + ":" + target
		}
		if t := e.contracts[target]; t != nil {
			if len(c.Requires) == 0 && len(c.Ensures) == 0 {
				return t
			}
			// "sameas T" plus clauses of its own (a caller-specific contract F@Caller that adds hand-over
			// preconditions to F's contract): T's contract with the extra clauses appended, under this key
			if m := e.mergedContracts[pkgPath+":"+key]; m != nil {
				return m
			}
			m := *t
			m.Key = c.Key
			m.Requires = append(append([]*Clause{}, t.Requires...), c.Requires...)
			m.Ensures = append(append([]*Clause{}, t.Ensures...), c.Ensures...)
			if e.mergedContracts == nil {
				e.mergedContracts = map[string]*Contract{}
			}
			e.mergedContracts[pkgPath+":"+key] = &m
			return &m
		}
	}
	return c
}

func funcKey(fn *types.Func) (pkgPath, key string) {
	sig := fn.Type().(*types.Signature)
	if fn.Pkg() != nil {
		pkgPath = fn.Pkg().Path()
	}
	key = fn.Name()
	if r := sig.Recv(); r != nil {
		t := r.Type()
		if p, ok := t.(*types.Pointer); ok {
			t = p.Elem()
		}
		t = types.Unalias(t)
		if n, ok := t.(*types.Named); ok {
			key = n.Obj().Name() + "." + fn.Name()
			if n.Obj().Pkg() != nil {
				pkgPath = n.Obj().Pkg().Path()
			}
		}
	}
	return
}

func shortPkg(path string) string {
	if a, ok := pkgAlias[path]; ok {
		return a
	}
	parts := strings.Split(path, "/")
	return parts[len(parts)-1]
}

// verifyFunc generates the obligations of one function under one profile.
func (e *Engine) verifyFunc(pkg *packages.Package, decl *ast.FuncDecl, profile string) (err error) {
	fn, _ := pkg.TypesInfo.Defs[decl.Name].(*types.Func)
	if fn == nil {
		fn = e.litFuncs[decl]
	}
	pp, key := funcKey(fn)
	c := e.contractFor(pp, key)
	if c != nil && c.Trusted != "" && !c.Extern {
		if e.trustedUsed == nil {
			e.trustedUsed = map[string]bool{}
		}
		e.trustedUsed[pp+":"+key] = true
	}
	fc := &FuncCtx{
		e: e, pkg: pkg, info: pkg.TypesInfo, decl: decl, fn: fn, sig: fn.Type().(*types.Signature),
		contract: c, profile: profile, name: shortPkg(pp) + "." + key,
		boxed: map[types.Object]bool{}, loopOrd: map[ast.Node]int{}, callOrd: map[*ast.CallExpr]callSite{},
		retOrd: map[*ast.ReturnStmt]int{}, exitSeen: map[string]int{},
	}
	if profile != "" && profile != "default" {
		fc.name += "[" + profile + "]"
	}
	e.curFunc = fc.name
	if c != nil {
		if e.funcLemmas == nil {
			e.funcLemmas = map[string][]string{}
		}
		e.funcLemmas[fc.name] = c.Lemmas
	}
	e.onStore = fc.storeHook
	e.onPredStore = fc.predStoreHook
	if e.funcFacts == nil {
		e.funcFacts = map[string][]string{}
	}
	// the entry heap is well formed: objects that exist at entry only refer to objects that exist at entry
	wfSeen := map[string]bool{}
	e.onBaseRefArray = func(arr string) {
		if fc.entry == nil && fc.entryAlloc == "" {
			return
		}
		if wfSeen[arr] {
			return
		}
		wfSeen[arr] = true
		e.nfresh++
		r := smtSym(fmt.Sprintf("r!b%d", e.nfresh))
		e.funcFacts[fc.name] = append(e.funcFacts[fc.name],
			arr+"|(forall (("+r+" Int)) (! (=> (< "+r+" "+fc.entryAlloc+") (and (<= 0 (select "+arr+" "+r+")) (< (select "+arr+" "+r+") "+fc.entryAlloc+"))) :pattern ((select "+arr+" "+r+"))))")
	}
	// ... and the elements of slices stored in entry objects only refer to objects that exist at entry
	// (upper bound only: element slots beyond the length carry no sign information)
	e.onBaseSliceRefArray = func(arr string) {
		if fc.entry == nil && fc.entryAlloc == "" {
			return
		}
		if wfSeen["sl:"+arr] {
			return
		}
		wfSeen["sl:"+arr] = true
		e.nfresh++
		r := smtSym(fmt.Sprintf("r!b%d", e.nfresh))
		e.nfresh++
		j := smtSym(fmt.Sprintf("j!b%d", e.nfresh))
		e.funcFacts[fc.name] = append(e.funcFacts[fc.name],
			arr+"|(forall (("+r+" Int) ("+j+" Int)) (! (=> (< "+r+" "+fc.entryAlloc+") (< (select (select "+arr+" "+r+") "+j+") "+fc.entryAlloc+")) :pattern ((select (select "+arr+" "+r+") "+j+"))))")
	}
	start := len(e.obls)
	defer func() {
		if r := recover(); r != nil {
			switch x := r.(type) {
			case unsupported:
				err = fmt.Errorf("%s: %s", fc.name, string(x))
			case specErr:
				err = fmt.Errorf("%s: spec error: %s", fc.name, string(x))
			default:
				panic(r)
			}
			e.obls = e.obls[:start]
		}
	}()
	fc.prepare()
	if e.curLocals == nil {
		e.curLocals = map[string][]localEntry{}
	}
	e.curLocals[fc.baseName()] = fc.localTable()
	st := fc.entryState()
	fc.entry = st.clone()
	fc.cover(st, "entry", decl.Body.Lbrace)
	fc.runGhostAt(st, "entry", "", 0, "", decl.Body.Lbrace+1)
	end := fc.execBlock(decl.Body, st)
	if end != nil {
		fc.doReturn(end, nil, nil)
	}
	fc.finalizeNames(start)
	return nil
}

func (fc *FuncCtx) prepare() {
	// ordinals of loops, call sites, returns in source order
	loopN := 0
	retN := 0
	callN := map[string]int{}
	retryLits := map[*ast.FuncLit]bool{}
	deferLits := map[*ast.FuncLit]bool{}
	ast.Inspect(fc.decl.Body, func(n ast.Node) bool {
		switch x := n.(type) {
		case *ast.CallExpr:
			if calleeName(x) == "RetryOnConflict" && len(x.Args) == 2 {
				if lit, ok := ast.Unparen(x.Args[1]).(*ast.FuncLit); ok {
					retryLits[lit] = true
				}
			}
		case *ast.DeferStmt:
			if lit, ok := x.Call.Fun.(*ast.FuncLit); ok {
				deferLits[lit] = true
			}
		}
		return true
	})
	ast.Inspect(fc.decl.Body, func(n ast.Node) bool {
		switch x := n.(type) {
		case *ast.ForStmt, *ast.RangeStmt:
			loopN++
			fc.loopOrd[n] = loopN
		case *ast.FuncLit:
			// the closure handed to retry.RetryOnConflict is treated as a loop body; deferred literals
			// are executed in place; any other literal is an opaque value whose body is not entered
			if retryLits[x] {
				loopN++
				fc.loopOrd[n] = loopN
			} else if !deferLits[x] {
				return false
			}
		case *ast.ReturnStmt:
			retN++
			fc.retOrd[x] = retN
		case *ast.CallExpr:
			name := calleeName(x)
			if name != "" {
				callN[name]++
				fc.callOrd[x] = callSite{name, callN[name]}
			}
		case *ast.SendStmt:
			callN["send"]++
			fc.chanCall(x, x.Arrow, "send", callN["send"])
		case *ast.UnaryExpr:
			if x.Op == token.ARROW {
				callN["recv"]++
				fc.chanCall(x, x.OpPos, "recv", callN["recv"])
			}
			if x.Op == token.AND {
				if id, ok := ast.Unparen(x.X).(*ast.Ident); ok {
					if obj := fc.info.Uses[id]; obj != nil {
						if _, isVar := obj.(*types.Var); isVar {
							fc.boxed[obj] = true
						}
					}
				}
			}
		}
		return true
	})
	// contract anchors: loops named in the contract must exist
	if fc.contract != nil {
		for n, ls := range fc.contract.Loops {
			found := false
			for node, k := range fc.loopOrd {
				if k == n {
					found = true
					if ls.Header != "" {
						h := loopHeader(fc.e.fset, node)
						if !strings.Contains(h, ls.Header) {
							// the header text is a drift guard; a header that differs only by renamed locals is accepted
							hh := h
							base := fc.e.baseLocals[fc.baseName()]
							cur := fc.localTable()
							if len(base) == len(cur) {
								for i := range base {
									if base[i].Name != cur[i].Name && base[i].Type == cur[i].Type {
										hh = replaceIdent(hh, cur[i].Name, base[i].Name)
									}
								}
							}
							if !strings.Contains(hh, ls.Header) {
								// the header text drifted: the invariants are still checked against the loop with this
								// ordinal (they fail on their own if they no longer fit), and the drift is noted
								fc.e.note(fmt.Sprintf("loop %d of %s: header %q in the contract, %q in the source", n, fc.name, ls.Header, h))
							}
						}
					}
				}
			}
			if !found {
				panic(unsupported(fmt.Sprintf("contract-anchor: loop %d not found in %s", n, fc.name)))
			}
		}
		for _, at := range fc.contract.Ats {
			if at.Where != "call" {
				continue
			}
			found := false
			for _, cs := range fc.callOrd {
				if cs.callee == at.Callee && cs.n == at.N {
					found = true
				}
			}
			if !found {
				panic(unsupported(fmt.Sprintf("contract-anchor: call %s#%d not found in %s", at.Callee, at.N, fc.name)))
			}
		}
	}
	res := fc.sig.Results()
	for i := 0; i < res.Len(); i++ {
		v := res.At(i)
		fc.results = append(fc.results, v)
		name := v.Name()
		if fc.contract != nil && i < len(fc.contract.Results) {
			name = fc.contract.Results[i]
		} else if name == "" || name == "_" {
			if res.Len() == 1 {
				name = "result"
			} else {
				name = fmt.Sprintf("result%d", i)
			}
		}
		fc.resNames = append(fc.resNames, name)
	}
}

func loopHeader(fset *token.FileSet, n ast.Node) string {
	switch x := n.(type) {
	case *ast.FuncLit:
		return "func literal"
	case *ast.ForStmt:
		s := "for"
		if x.Init != nil {
			s += " " + exprText(fset, x.Init) + ";"
		}
		if x.Cond != nil {
			s += " " + exprText(fset, x.Cond)
		}
		if x.Post != nil {
			s += "; " + exprText(fset, x.Post)
		}
		return s
	case *ast.RangeStmt:
		return "range " + exprText(fset, x.X)
	}
	return ""
}

func calleeName(c *ast.CallExpr) string {
	switch f := ast.Unparen(c.Fun).(type) {
	case *ast.Ident:
		return f.Name
	case *ast.SelectorExpr:
		return f.Sel.Name
	}
	return ""
}

// entryState builds the symbolic state at function entry.
func (fc *FuncCtx) entryState() *State {
	e := fc.e
	st := &State{vars: map[types.Object]*Value{}, ghost: map[string]*Value{}, heap: map[string][]string{}, storeLog: map[string]map[string]bool{}}
	st.alloc = e.fresh("alloc0", "Int")
	fc.entryAlloc = st.alloc
	st.assume("(> " + st.alloc + " 0)")
	bind := func(v *types.Var) {
		if v == nil {
			return
		}
		sh := e.shapeOf(v.Type())
		val := e.freshValue(sh, "p."+v.Name())
		for _, f := range e.typeFacts(val) {
			st.assume(f)
		}
		fc.allocFacts(st, val)
		fc.declareVar(st, v, val)
	}
	if r := fc.sig.Recv(); r != nil {
		fc.recvVar = r
		bind(r)
	}
	for i := 0; i < fc.sig.Params().Len(); i++ {
		bind(fc.sig.Params().At(i))
	}
	// a function literal verified on its own: the variables it captures are additional parameters
	if lit := e.litNodes[fc.decl]; lit != nil {
		seen := map[*types.Var]bool{}
		ast.Inspect(lit.Body, func(n ast.Node) bool {
			id, ok := n.(*ast.Ident)
			if !ok {
				return true
			}
			v, ok := fc.info.Uses[id].(*types.Var)
			if !ok || v.IsField() || seen[v] || v.Parent() == fc.pkg.Types.Scope() || v.Pkg() != fc.pkg.Types {
				return true
			}
			if v.Pos() >= lit.Pos() && v.Pos() <= lit.End() {
				return true // declared inside the literal
			}
			seen[v] = true
			bind(v)
			return true
		})
	}
	// pointer parameters to unrelated struct types denote different objects (Go's type safety): two non-nil
	// pointers *T and *U can only be equal if one struct is (transitively) the first embedded field of the other
	var ptrParams []*types.Var
	if r := fc.sig.Recv(); r != nil {
		ptrParams = append(ptrParams, r)
	}
	for i := 0; i < fc.sig.Params().Len(); i++ {
		ptrParams = append(ptrParams, fc.sig.Params().At(i))
	}
	for i := 0; i < len(ptrParams); i++ {
		for j := i + 1; j < len(ptrParams); j++ {
			a, b := ptrParams[i], ptrParams[j]
			va, vb := st.vars[a], st.vars[b]
			if va == nil || vb == nil || va.Sh.Kind != KRef || vb.Sh.Kind != KRef {
				continue
			}
			if unrelatedPointees(a.Type(), b.Type()) {
				st.assume(or(eq(va.T(), "0"), not(eq(va.T(), vb.T()))))
			}
		}
	}
	for _, r := range fc.results {
		if r.Name() != "" && r.Name() != "_" {
			fc.declareVar(st, r, e.zeroValue(e.shapeOf(r.Type())))
		}
	}
	// ghost globals and function ghost variables
	for name, g := range e.globals {
		env := &SpecEnv{e: e, st: st, cf: g.CF, pkg: e.pkgForCF(g.CF)}
		st.ghost[name] = e.freshValue(env.resolveType(g.Type), "g."+name)
	}
	// facts about package-level variables (their initialisers are not executed by the translator)
	for _, cf := range e.cfiles {
		if cf.PkgPath != fc.pkg.PkgPath {
			continue
		}
		for _, gi := range cf.GlobalInvs {
			env := fc.specEnv(st, nil, fc.decl.Body.Lbrace+1, nil)
			env.cf = cf
			st.assume(env.evalBool(gi.Expr))
			e.assumed["package-level variable fact: "+gi.Src] = true
		}
	}
	if fc.contract != nil {
		for _, gv := range fc.contract.Ghosts {
			env := fc.specEnv(st, nil, fc.decl.Body.Lbrace+1, nil)
			sh := env.resolveType(gv.Type)
			if gv.Init != nil {
				var v *Value
				if isEmptysetCall(gv.Init) {
					v = e.zeroValue(sh)
				} else {
					v = env.eval(gv.Init)
				}
				if v == nilValue {
					v = e.zeroValue(sh)
				}
				// name compound initial values so that they can occur in quantifier patterns
				nv := &Value{Sh: sh, L: append([]string(nil), v.L...)}
				for i, t := range nv.L {
					if strings.HasPrefix(t, "(") {
						c := e.fresh("g."+gv.Name, e.leafSorts(sh)[i])
						st.assume(eq(c, t))
						nv.L[i] = c
					}
				}
				st.ghost[gv.Name] = nv
			} else {
				st.ghost[gv.Name] = e.freshValue(sh, "g."+gv.Name)
			}
		}
		for _, c := range fc.contract.Requires {
			if c.Profile != "" && c.Profile != fc.profile {
				continue
			}
			env := fc.specEnv(st, nil, fc.decl.Body.Lbrace+1, nil)
			st.assume(env.evalBool(c.Expr))
			if c.Free {
				// a free precondition is assumed here and not demanded from any caller: an assumption of the proof
				e.assumed["free (unchecked) precondition of "+fc.baseName()+": "+c.Src] = true
			}
		}
	}
	return st
}

// allocFacts: references held in a value are allocated (below the allocation counter).
func (fc *FuncCtx) allocFacts(st *State, v *Value) {
	e := fc.e
	var walk func(sh *Shape, l []string)
	walk = func(sh *Shape, l []string) {
		switch sh.Kind {
		case KRef, KMapRef:
			st.assume("(< " + l[0] + " " + st.alloc + ")")
		case KIface:
			st.assume("(< " + l[1] + " " + st.alloc + ")")
		case KStruct:
			o := 0
			for _, f := range sh.Fields {
				n := e.nLeaves(f.Sh)
				walk(f.Sh, l[o:o+n])
				o += n
			}
		}
	}
	walk(v.Sh, v.L)
}

// declareVar introduces a Go variable; address-taken variables are boxed.
func (fc *FuncCtx) declareVar(st *State, obj types.Object, val *Value) {
	e := fc.e
	if fc.boxed[obj] {
		r := e.allocRef(st, "box."+obj.Name())
		ptr := scalar(&Shape{Kind: KRef, elem: val.Sh, eng: e}, r)
		e.storeDeref(st, ptr, val)
		st.vars[obj] = ptr
		return
	}
	st.vars[obj] = val
}

func (fc *FuncCtx) readVar(st *State, obj types.Object) (*Value, bool) {
	v, ok := st.vars[obj]
	if !ok {
		return nil, false
	}
	if fc.boxed[obj] {
		return fc.e.deref(st, v), true
	}
	return v, true
}

func (fc *FuncCtx) writeVar(st *State, obj types.Object, val *Value) {
	if fc.boxed[obj] {
		if p, ok := st.vars[obj]; ok {
			fc.e.storeDeref(st, p, val)
			return
		}
		fc.declareVar(st, obj, val)
		return
	}
	st.vars[obj] = val
}

// specEnv builds the environment in which contract expressions of this
// function are evaluated at source position pos.
func (fc *FuncCtx) specEnv(st *State, old *State, pos token.Pos, names map[string]*Value) *SpecEnv {
	env := &SpecEnv{e: fc.e, st: st, old: old, names: names, pkg: fc.pkg}
	if fc.contract != nil {
		env.cf = fc.contract.CF
	}
	if env.names == nil {
		env.names = map[string]*Value{}
	}
	env.goLookup = func(name string, inOld bool) (*Value, bool) {
		scope := fc.pkg.Types.Scope().Innermost(pos)
		if scope == nil {
			return nil, false
		}
		_, obj := scope.LookupParent(name, pos)
		if obj == nil {
			// a local variable that was merely renamed since the contracts were written (see localTable)
			if alias := fc.renamedLocal(name); alias != "" {
				_, obj = scope.LookupParent(alias, pos)
			}
		}
		if obj == nil {
			return nil, false
		}
		switch o := obj.(type) {
		case *types.Var:
			s := st
			if inOld && old != nil {
				s = old
			}
			if v, ok := fc.readVar(s, o); ok {
				return v, true
			}
			if o.Parent() == fc.pkg.Types.Scope() || o.Pkg() != fc.pkg.Types {
				return fc.globalVar(o), true
			}
		case *types.Const:
			return fc.constValue(o.Val(), o.Type()), true
		}
		return nil, false
	}
	return env
}

func (fc *FuncCtx) globalVar(o *types.Var) *Value {
	fc.checkGlobalInit(o)
	return fc.e.globalValue(o)
}

// checkGlobalInit: a contract file may pin the initialiser of a package-level variable the assumed contracts
// depend on (`globalinit name: <Go expression text>`), e.g. the pattern of a compiled regular expression.  A
// function that reads the variable gets an obligation that holds iff the source still says exactly that.
func (fc *FuncCtx) checkGlobalInit(o *types.Var) {
	e := fc.e
	if e.dry > 0 || o.Pkg() == nil {
		return
	}
	key := o.Pkg().Path() + ":" + o.Name()
	want, ok := e.globalInits[key]
	if !ok {
		return
	}
	if fc.globalInitDone == nil {
		fc.globalInitDone = map[string]bool{}
	}
	if fc.globalInitDone[key] {
		return
	}
	fc.globalInitDone[key] = true
	got := "<not found>"
	for _, p := range e.pkgs {
		if p.Types != o.Pkg() {
			continue
		}
		for _, f := range p.Syntax {
			for _, d := range f.Decls {
				gd, ok := d.(*ast.GenDecl)
				if !ok || gd.Tok != token.VAR {
					continue
				}
				for _, sp := range gd.Specs {
					vs := sp.(*ast.ValueSpec)
					for i, nm := range vs.Names {
						if p.TypesInfo.Defs[nm] == o && i < len(vs.Values) {
							got = exprText(e.fset, vs.Values[i])
						}
					}
				}
			}
		}
	}
	goal := "false"
	if normSpace(got) == normSpace(want.Expr) {
		goal = "true"
	}
	st := &State{}
	fc.oblige(st, "globalinit", o.Name(), fc.decl.Pos(), goal, want.Tags, "package-level variable "+o.Name()+" must be initialised with "+want.Expr+" (the assumed contracts depend on it); the source says "+got)
}

func normSpace(s string) string { return strings.Join(strings.Fields(s), " ") }

// globalValue is the symbolic value of a package-level variable: one named constant per leaf
// (its initialiser is not executed; package-level variables are treated as never reassigned,
// which is recorded as an assumption where a contract relies on one).
func (e *Engine) globalValue(o *types.Var) *Value {
	sh := e.shapeOf(o.Type())
	sorts := e.leafSorts(sh)
	l := make([]string, len(sorts))
	for i, s := range sorts {
		name := smtSym(fmt.Sprintf("G.%s.%s.%d", shortPkg(o.Pkg().Path()), o.Name(), i))
		l[i] = e.declConst(name, s)
	}
	return &Value{Sh: sh, L: l}
}

// ---------------------------------------------------------------- ghost statements

func (fc *FuncCtx) runGhostAt(st *State, where, callee string, n int, when string, pos token.Pos) {
	if fc.contract == nil {
		return
	}
	for _, at := range fc.contract.Ats {
		if at.Where != where {
			continue
		}
		if where == "call" && (at.Callee != callee || at.N != n || at.When != when) {
			continue
		}
		if (where == "loopend" || where == "loopstart" || where == "loopexit") && at.N != n {
			continue
		}
		for _, gs := range at.Stmts {
			if where == "exit" {
				// an exit that precedes the declaration of a variable the statement names is skipped
				if fc.ghostStmtSkipped(st, gs, pos, fmt.Sprintf("%s%s#%d%s", where, callee, n, when)) {
					continue
				}
				continue
			}
			fc.runGhostStmt(st, gs, pos, fmt.Sprintf("%s%s#%d%s", where, callee, n, when))
		}
	}
}

func (fc *FuncCtx) runGhostStmt(st *State, gs *GhostStmt, pos token.Pos, anchor string) {
	e := fc.e
	names := map[string]*Value{}
	for k, v := range fc.ghostNames {
		names[k] = v
	}
	if fc.retVals != nil {
		for i, n := range fc.resNames {
			if i < len(fc.retVals) {
				names[n] = fc.retVals[i]
			}
		}
	}
	env := fc.specEnv(st, fc.entry, pos, names)
	switch gs.Kind {
	case "assert":
		lbl := gs.Label
		if lbl == "" {
			lbl = shortHash(gs.Src)
		}
		fc.oblige(st, "ghost-assert", anchor+":"+lbl, pos, env.evalBool(gs.Value), gs.Tags, gs.Src)
		if !e.noAssume[fc.name+"/ghost-assert:"+anchor+":"+lbl] {
			st.assume(env.evalBool(gs.Value))
		}
		return
	case "assume":
		e.assumed["ghost assume in "+fc.name+": "+gs.Src] = true
		st.assume(env.evalBool(gs.Value))
		return
	}
	cur, ok := st.ghost[gs.Name]
	if !ok {
		specFail("ghost assignment to undeclared ghost variable %q", gs.Name)
	}
	var val *Value
	if isEmptysetCall(gs.Value) && gs.Index == nil {
		val = e.zeroValue(cur.Sh)
	} else {
		val = env.eval(gs.Value)
	}
	if gs.Index != nil {
		idx := scalarT(env.eval(gs.Index), gs.Index)
		if val == nilValue {
			val = e.zeroValue(cur.Sh.Elem())
		}
		st.ghost[gs.Name] = scalar(cur.Sh, sto(cur.T(), idx, scalarT(val, gs.Value)))
		return
	}
	if val == nilValue {
		val = e.zeroValue(cur.Sh)
	}
	if len(val.L) != len(cur.L) {
		specFail("ghost assignment %s: shape mismatch %s vs %s", gs.Name, val.Sh, cur.Sh)
	}
	// a boolean ghost variable assigned a quantified formula is given a name: later clauses mention
	// the name, and the defining equation is one fact (otherwise the formula is copied into every use)
	if cur.Sh.Kind == KBool && len(val.L) == 1 && (strings.Contains(val.L[0], "(forall ") || strings.Contains(val.L[0], "(exists ")) {
		c := e.fresh("g."+gs.Name, "Bool")
		st.assume(eq(c, val.L[0]))
		st.ghost[gs.Name] = scalar(cur.Sh, c)
		return
	}
	st.ghost[gs.Name] = &Value{Sh: cur.Sh, L: val.L}
}

func (fc *FuncCtx) ghostStmtSkipped(st *State, gs *GhostStmt, pos token.Pos, anchor string) (skipped bool) {
	defer func() {
		if r := recover(); r != nil {
			if se, ok := r.(specErr); ok && strings.HasPrefix(string(se), "unknown name") {
				skipped = true
				return
			}
			panic(r)
		}
	}()
	fc.runGhostStmt(st, gs, pos, anchor)
	return false
}

func shortHash(s string) string {
	h := uint32(2166136261)
	for i := 0; i < len(s); i++ {
		h ^= uint32(s[i])
		h *= 16777619
	}
	return fmt.Sprintf("%08x", h)
}

// ---------------------------------------------------------------- statements

func (fc *FuncCtx) execBlock(b *ast.BlockStmt, st *State) *State {
	for _, s := range b.List {
		if st == nil {
			return nil
		}
		st = fc.execStmt(s, st)
	}
	return st
}

func (fc *FuncCtx) execStmt(s ast.Stmt, st *State) *State {
	switch x := s.(type) {
	case *ast.BlockStmt:
		return fc.execBlock(x, st)
	case *ast.EmptyStmt:
		return st
	case *ast.ExprStmt:
		fc.evalMulti(x.X, st)
		return st
	case *ast.AssignStmt:
		fc.execAssign(x, st)
		return st
	case *ast.IncDecStmt:
		lv := fc.lvalue(x.X, st)
		cur := lv.load(st)
		op := "+"
		if x.Tok == token.DEC {
			op = "-"
		}
		nv := scalar(cur.Sh, "("+op+" "+cur.T()+" 1)")
		nv = fc.overflowCheck(st, x, nv)
		lv.store(st, nv)
		return st
	case *ast.DeclStmt:
		gd, ok := x.Decl.(*ast.GenDecl)
		if !ok || gd.Tok != token.VAR {
			if ok && (gd.Tok == token.CONST || gd.Tok == token.TYPE) {
				return st
			}
			fc.unsupp(s, "declaration")
		}
		for _, sp := range gd.Specs {
			vs := sp.(*ast.ValueSpec)
			if len(vs.Values) == 1 && len(vs.Names) > 1 {
				var vals []*Value
				if len(vs.Names) == 2 && fc.isCommaOk(vs.Values[0]) {
					vals = fc.evalCommaOk(vs.Values[0], st)
				} else {
					vals = fc.evalMulti(vs.Values[0], st)
				}
				for i, n := range vs.Names {
					if obj := fc.info.Defs[n]; obj != nil {
						fc.declareVar(st, obj, fc.convertTo(vals[i], fc.e.shapeOf(obj.Type())))
					}
				}
				continue
			}
			for i, n := range vs.Names {
				obj := fc.info.Defs[n]
				if obj == nil {
					continue
				}
				sh := fc.e.shapeOf(obj.Type())
				var v *Value
				if i < len(vs.Values) {
					v = fc.convertTo(fc.eval(vs.Values[i], st), sh)
				} else {
					v = fc.e.zeroValue(sh)
				}
				fc.declareVar(st, obj, v)
			}
		}
		return st
	case *ast.IfStmt:
		return fc.execIf(x, st)
	case *ast.ForStmt:
		return fc.execFor(x, st)
	case *ast.RangeStmt:
		return fc.execRange(x, st)
	case *ast.SwitchStmt:
		return fc.execSwitch(x, st)
	case *ast.ReturnStmt:
		fc.execReturn(x, st)
		return nil
	case *ast.BranchStmt:
		if x.Label != nil {
			fc.unsupp(s, "labelled branch")
		}
		switch x.Tok {
		case token.BREAK:
			if len(fc.frames) == 0 {
				fc.unsupp(s, "break outside loop")
			}
			f := fc.frames[len(fc.frames)-1]
			f.brk = append(f.brk, st)
			return nil
		case token.CONTINUE:
			for i := len(fc.frames) - 1; i >= 0; i-- {
				if fc.frames[i].kind == "loop" {
					fc.frames[i].cont = append(fc.frames[i].cont, st)
					return nil
				}
			}
			fc.unsupp(s, "continue outside loop")
		}
		fc.unsupp(s, "branch statement %s", x.Tok)
	case *ast.DeferStmt:
		fc.execDefer(x, st)
		return st
	case *ast.GoStmt:
		fc.unsupp(s, "go statement")
	case *ast.LabeledStmt:
		fc.unsupp(s, "labelled statement")
	case *ast.SelectStmt:
		return fc.execSelect(x, st)
	case *ast.SendStmt:
		ch := fc.eval(x.Chan, st)
		v := fc.eval(x.Value, st)
		fc.chanOp("send", x, st, ch, fc.info.TypeOf(x.Chan), v)
		return st
	case *ast.TypeSwitchStmt:
		fc.unsupp(s, "type switch")
	}
	fc.unsupp(s, "statement %T", s)
	return nil
}

func (fc *FuncCtx) execIf(x *ast.IfStmt, st *State) *State {
	if x.Init != nil {
		st = fc.execStmt(x.Init, st)
	}
	c := fc.evalCond(x.Cond, st)
	thenSt := st.clone()
	thenSt.pc = append(thenSt.pc, c)
	elseSt := st
	elseSt.pc = append(elseSt.pc, not(c))
	r1 := fc.execBlock(x.Body, thenSt)
	var r2 *State
	if x.Else != nil {
		r2 = fc.execStmt(x.Else, elseSt)
	} else {
		r2 = elseSt
	}
	return fc.e.merge([]*State{r1, r2})
}

func (fc *FuncCtx) execSwitch(x *ast.SwitchStmt, st *State) *State {
	if x.Init != nil {
		st = fc.execStmt(x.Init, st)
	}
	var tag *Value
	if x.Tag != nil {
		tag = fc.eval(x.Tag, st)
	}
	fr := &frame{kind: "switch"}
	fc.frames = append(fc.frames, fr)
	var outs []*State
	var defaultBody []ast.Stmt
	hasDefault := false
	cur := st
	for _, cc := range x.Body.List {
		clause := cc.(*ast.CaseClause)
		if clause.List == nil {
			hasDefault = true
			defaultBody = clause.Body
			continue
		}
		var conds []string
		for _, ce := range clause.List {
			if tag != nil {
				v := fc.eval(ce, cur)
				conds = append(conds, fc.e.valuesEqual(tag, fc.convertTo(v, tag.Sh)))
			} else {
				conds = append(conds, fc.evalCond(ce, cur))
			}
		}
		c := or(conds...)
		b := cur.clone()
		b.pc = append(b.pc, c)
		for _, s := range clause.Body {
			if _, ok := s.(*ast.BranchStmt); ok && s.(*ast.BranchStmt).Tok == token.FALLTHROUGH {
				fc.unsupp(s, "fallthrough")
			}
		}
		r := fc.execBlock(&ast.BlockStmt{List: clause.Body}, b)
		outs = append(outs, r)
		cur.pc = append(cur.pc, not(c))
	}
	if hasDefault {
		outs = append(outs, fc.execBlock(&ast.BlockStmt{List: defaultBody}, cur))
	} else {
		outs = append(outs, cur)
	}
	fc.frames = fc.frames[:len(fc.frames)-1]
	outs = append(outs, fr.brk...)
	return fc.e.merge(outs)
}

func (fc *FuncCtx) execAssign(x *ast.AssignStmt, st *State) {
	e := fc.e
	// op-assign
	if x.Tok != token.ASSIGN && x.Tok != token.DEFINE {
		lv := fc.lvalue(x.Lhs[0], st)
		cur := lv.load(st)
		rhs := fc.eval(x.Rhs[0], st)
		var op token.Token
		switch x.Tok {
		case token.ADD_ASSIGN:
			op = token.ADD
		case token.SUB_ASSIGN:
			op = token.SUB
		case token.MUL_ASSIGN:
			op = token.MUL
		default:
			fc.unsupp(x, "assignment operator %s", x.Tok)
		}
		nv := fc.binaryOp(st, x, op, cur, rhs, cur.Sh)
		lv.store(st, nv)
		return
	}
	var vals []*Value
	if len(x.Rhs) == 1 && len(x.Lhs) == 2 && fc.isCommaOk(x.Rhs[0]) {
		vals = fc.evalCommaOk(x.Rhs[0], st)
	} else if len(x.Rhs) == 1 && len(x.Lhs) > 1 {
		vals = fc.evalMulti(x.Rhs[0], st)
		if len(vals) != len(x.Lhs) {
			fc.unsupp(x, "assignment arity")
		}
	} else {
		for i, r := range x.Rhs {
			_ = i
			vals = append(vals, fc.eval(r, st))
		}
	}
	// evaluate all lvalues first for plain assignment of several values
	for i, l := range x.Lhs {
		if id, ok := l.(*ast.Ident); ok && id.Name == "_" {
			continue
		}
		if x.Tok == token.DEFINE {
			if id, ok := l.(*ast.Ident); ok {
				if obj := fc.info.Defs[id]; obj != nil {
					fc.declareVar(st, obj, fc.convertTo(vals[i], e.shapeOf(obj.Type())))
					continue
				}
			}
		}
		lv := fc.lvalue(l, st)
		lv.store(st, fc.convertTo(vals[i], lv.shape()))
	}
}

// convertTo adapts a value to the shape of its destination (implicit
// conversions: concrete -> interface, untyped nil, named types).
func (fc *FuncCtx) convertTo(v *Value, to *Shape) *Value {
	e := fc.e
	if v == nilValue {
		return e.zeroValue(to)
	}
	if v.Sh == to {
		return v
	}
	switch to.Kind {
	case KIface:
		if v.Sh.Kind == KIface {
			return &Value{Sh: to, L: v.L}
		}
		if v.Sh.Kind == KErr {
			return &Value{Sh: to, L: []string{ite(eq(v.T(), "0"), "0", e.typeTag(types.Universe.Lookup("error").Type())), v.T()}}
		}
		return fc.toIface(v, to)
	case KErr:
		if v.Sh.Kind == KErr {
			return &Value{Sh: to, L: v.L}
		}
		if v.Sh.Kind == KIface {
			// nil interface -> nil error; a non-nil interface value is a non-nil error
			// (a typed nil pointer inside an error interface is not modelled)
			return scalar(to, ite(eq(v.L[0], "0"), "0", ite(eq(v.L[1], "0"), "1", v.L[1])))
		}
		if v.Sh.Kind == KRef {
			// a pointer type implementing error
			return scalar(to, v.T())
		}
	}
	if len(v.L) == e.nLeaves(to) {
		return &Value{Sh: to, L: v.L}
	}
	panic(unsupported(fmt.Sprintf("UNSUPPORTED conversion from %s to %s", v.Sh, to)))
}

func (fc *FuncCtx) toIface(v *Value, to *Shape) *Value {
	e := fc.e
	tag := "0"
	if v.Sh.Go != nil {
		tag = e.typeTag(v.Sh.Go)
	}
	switch v.Sh.Kind {
	case KRef, KMapRef, KFunc:
		// a typed nil pointer in an interface is a non-nil interface
		return &Value{Sh: to, L: []string{tag, v.T()}}
	case KInt, KOpaque:
		return &Value{Sh: to, L: []string{tag, v.T()}}
	case KStr:
		e.ensureBoxStrAxiom()
		return &Value{Sh: to, L: []string{tag, app("box.str", v.T())}}
	case KBool:
		return &Value{Sh: to, L: []string{tag, ite(v.T(), "1", "0")}}
	case KStruct, KSlice, KUnit:
		// boxed copy: identity only
		r := e.fresh("boxed", "Int")
		return &Value{Sh: to, L: []string{tag, r}}
	}
	panic(unsupported(fmt.Sprintf("UNSUPPORTED conversion of %s to interface", v.Sh)))
}

// ---------------------------------------------------------------- returns

type closureFrame struct {
	lit  *ast.FuncLit
	rets []*State
	name string // ghost name under which the returned value is stored in each return state
}

func (fc *FuncCtx) execReturn(x *ast.ReturnStmt, st *State) {
	if n := len(fc.inlines); n > 0 {
		fr := fc.inlines[n-1]
		var vals []*Value
		if len(x.Results) == 0 {
			for _, r := range fr.results {
				v, ok := fc.readVar(st, r)
				if !ok {
					fc.unsupp(x, "bare return without named results")
				}
				vals = append(vals, v)
			}
		} else if len(x.Results) == 1 && len(fr.results) > 1 {
			vals = fc.evalMulti(x.Results[0], st)
		} else {
			for _, r := range x.Results {
				vals = append(vals, fc.eval(r, st))
			}
		}
		for i := range vals {
			st.ghost[fmt.Sprintf("$inl%d.%d", fr.id, i)] = fc.convertTo(vals[i], fc.e.shapeOf(fr.results[i].Type()))
		}
		fr.rets = append(fr.rets, st)
		return
	}
	if n := len(fc.closures); n > 0 {
		cf := fc.closures[n-1]
		if len(x.Results) == 1 {
			v := fc.eval(x.Results[0], st)
			st.ghost[cf.name] = fc.convertTo(v, shErr)
		} else if len(x.Results) != 0 {
			fc.unsupp(x, "closure with several results")
		}
		cf.rets = append(cf.rets, st)
		return
	}
	var vals []*Value
	if len(x.Results) == 0 {
		for _, r := range fc.results {
			v, ok := fc.readVar(st, r)
			if !ok {
				fc.unsupp(x, "bare return without named results")
			}
			vals = append(vals, v)
		}
	} else if len(x.Results) == 1 && len(fc.results) > 1 {
		vals = fc.evalMulti(x.Results[0], st)
	} else {
		for _, r := range x.Results {
			vals = append(vals, fc.eval(r, st))
		}
	}
	for i := range vals {
		vals[i] = fc.convertTo(vals[i], fc.e.shapeOf(fc.results[i].Type()))
	}
	fc.doReturn(st, x, vals)
}

func (fc *FuncCtx) doReturn(st *State, x *ast.ReturnStmt, vals []*Value) {
	e := fc.e
	exit := "end"
	pos := fc.decl.Body.Rbrace
	if x != nil {
		exit = fmt.Sprintf("exit%d", fc.retOrd[x])
		pos = x.Pos()
	}
	if vals == nil {
		for _, r := range fc.results {
			v, ok := fc.readVar(st, r)
			if !ok {
				v = e.zeroValue(e.shapeOf(r.Type()))
			}
			vals = append(vals, v)
		}
	}
	// named results are assigned before deferred calls run
	for i, r := range fc.results {
		if r.Name() != "" && r.Name() != "_" {
			fc.writeVar(st, r, vals[i])
		}
	}
	// deferred calls, in reverse order
	savedDefers := fc.defers
	for i := len(fc.defers) - 1; i >= 0; i-- {
		fc.runDeferred(fc.defers[i], st)
	}
	fc.defers = savedDefers
	fc.retVals = vals
	fc.runGhostAt(st, "exit", "", 0, "", fc.decl.Body.Rbrace)
	if fc.contract != nil {
		names := map[string]*Value{}
		for i, n := range fc.resNames {
			names[n] = vals[i]
		}
		// ghost frame: a ghost global that is not named in the modifies clause must be unchanged
		if fc.contract.Trusted == "" {
			mods := map[string]bool{}
			for _, m := range fc.contract.Modifies {
				m = strings.TrimSpace(strings.TrimPrefix(strings.TrimSpace(m), "ghost "))
				mods[m] = true
			}
			for _, at := range fc.contract.Ats {
				for _, gs := range at.Stmts {
					if gs.Kind == "assign" {
						mods[gs.Name] = true
					}
				}
			}
			for _, g := range sortedGhostNames(e.globals) {
				if mods[g] {
					continue
				}
				cur, ok1 := st.ghost[g]
				ent, ok2 := fc.entry.ghost[g]
				if !ok1 || !ok2 {
					continue
				}
				same := true
				var eqs []string
				for k := range cur.L {
					if cur.L[k] != ent.L[k] {
						same = false
					}
					eqs = append(eqs, eq(cur.L[k], ent.L[k]))
				}
				if same {
					continue
				}
				fc.oblige(st, "frame-ghost", g+"@"+exit, pos, and(eqs...), nil, "ghost global "+g+" is not in the modifies clause and must be unchanged")
			}
		}
		for i, c := range fc.contract.Ensures {
			if c.Profile != "" && c.Profile != fc.profile {
				continue
			}
			if c.Free {
				continue
			}
			env := fc.specEnv(st, fc.entry, fc.decl.Body.Rbrace, names)
			lbl := c.Label
			if lbl == "" {
				lbl = fmt.Sprintf("c%d", i+1)
			}
			fc.oblige(st, "ensures", lbl+"@"+exit, pos, env.evalBool(c.Expr), c.Tags, c.Src)
		}
	}
	fc.retVals = nil
}

func (fc *FuncCtx) execDefer(x *ast.DeferStmt, st *State) {
	d := deferred{call: x.Call}
	if lit, ok := x.Call.Fun.(*ast.FuncLit); ok {
		if len(x.Call.Args) != 0 {
			fc.unsupp(x, "deferred literal with arguments")
		}
		d.lit = lit
	} else {
		for _, a := range x.Call.Args {
			d.args = append(d.args, fc.eval(a, st))
		}
		if sel, ok := x.Call.Fun.(*ast.SelectorExpr); ok {
			if s := fc.info.Selections[sel]; s != nil {
				d.recv = fc.eval(sel.X, st)
			}
		}
	}
	fc.defers = append(fc.defers, d)
}

func (fc *FuncCtx) runDeferred(d deferred, st *State) {
	if d.lit != nil {
		saved := fc.defers
		fc.defers = nil
		// body of the literal is executed inline; it must not return values
		end := fc.execBlockNoReturn(d.lit.Body, st)
		_ = end
		fc.defers = saved
		return
	}
	if id, ok := d.call.Fun.(*ast.Ident); ok {
		if b, isB := fc.info.Uses[id].(*types.Builtin); isB {
			if b.Name() == "close" && len(d.args) == 1 {
				fc.chanOp("close", d.call, st, d.args[0], fc.info.TypeOf(d.call.Args[0]), nil)
				return
			}
			fc.unsupp(d.call, "deferred builtin %s", b.Name())
		}
	}
	fc.callWith(d.call, st, d.recv, d.args, true)
}

// execBlockNoReturn executes a block in which return statements simply end
// the block (used for deferred function literals without results).
func (fc *FuncCtx) execBlockNoReturn(b *ast.BlockStmt, st *State) *State {
	for _, s := range b.List {
		if _, ok := s.(*ast.ReturnStmt); ok {
			return st
		}
		if st == nil {
			return nil
		}
		st = fc.execStmt(s, st)
	}
	return st
}

// ---------------------------------------------------------------- naming

// finalizeNames makes obligation names unique and stable: obligations with the
// same base name get an ordinal in source order.
func (fc *FuncCtx) finalizeNames(start int) {
	e := fc.e
	groups := map[string][]*Obligation{}
	for _, o := range e.obls[start:] {
		groups[o.Name] = append(groups[o.Name], o)
	}
	for name, os := range groups {
		if len(os) == 1 {
			continue
		}
		sort.SliceStable(os, func(i, j int) bool { return posLess(os[i].Pos, os[j].Pos) })
		for i, o := range os {
			o.Name = name + "#" + strconv.Itoa(i+1)
		}
	}
}

func posLess(a, b string) bool {
	la, lb := lineOf(a), lineOf(b)
	return la < lb
}

func lineOf(p string) int {
	k := strings.LastIndex(p, ":")
	if k < 0 {
		return 0
	}
	n, _ := strconv.Atoi(p[k+1:])
	return n
}

// comma-ok forms: v, ok := m[k] and v, ok := x.(T)
func (fc *FuncCtx) isCommaOk(x ast.Expr) bool {
	switch n := ast.Unparen(x).(type) {
	case *ast.UnaryExpr:
		return n.Op == token.ARROW
	case *ast.IndexExpr:
		_, isMap := fc.info.TypeOf(n.X).Underlying().(*types.Map)
		return isMap
	case *ast.TypeAssertExpr:
		return true
	}
	return false
}

func (fc *FuncCtx) evalCommaOk(x ast.Expr, st *State) []*Value {
	e := fc.e
	switch n := ast.Unparen(x).(type) {
	case *ast.UnaryExpr:
		if n.Op == token.ARROW {
			ch := fc.eval(n.X, st)
			return fc.chanOp("recv", n, st, ch, fc.info.TypeOf(n.X), nil)
		}
	case *ast.IndexExpr:
		m := fc.eval(n.X, st)
		k := fc.eval(n.Index, st)
		v := fc.nameValue(st, e.mapGet(st, m, k.T()), "mv")
		fc.readFacts(st, v)
		return []*Value{v, scalar(shBool, e.mapHas(st, m, k.T()))}
	case *ast.TypeAssertExpr:
		v := fc.eval(n.X, st)
		t := fc.info.TypeOf(n.Type)
		ok := fc.typeIs(v, t)
		res := fc.fromIface(v, t)
		z := e.zeroValue(res.Sh)
		l := make([]string, len(res.L))
		for i := range l {
			l[i] = ite(ok, res.L[i], z.L[i])
		}
		return []*Value{{Sh: res.Sh, L: l}, scalar(shBool, ok)}
	}
	fc.unsupp(x, "comma-ok form")
	return nil
}

func sortedGhostNames(m map[string]*GhostGlobal) []string {
	out := make([]string, 0, len(m))
	for k := range m {
		out = append(out, k)
	}
	sort.Strings(out)
	return out
}

func isEmptysetCall(x SExpr) bool {
	c, ok := x.(*SCall)
	if !ok {
		return false
	}
	id, ok := c.Fun.(*SIdent)
	return ok && id.Name == "emptyset" && len(c.Args) == 0
}

// ---------------------------------------------------------------- channel operations
//
// A channel operation is modelled as a call of an ASSUMED, caller-specific contract
//   extern chan:recv@F   params ch          results v, ok
//   extern chan:send@F   params ch, v
//   extern chan:close@F  params ch
// written next to F's contract.  The channel itself is an opaque value; what an operation
// means (which event arrives, what the consumer sees) is carried by ghost state named in
// those contracts.  This is a SEQUENTIAL reading of one goroutine's code: blocking,
// interleavings with other goroutines and deadlock are not modelled (recorded as an assumption).

func (fc *FuncCtx) chanCall(node ast.Node, pos token.Pos, kind string, n int) *ast.CallExpr {
	if c, ok := fc.chanCalls[node]; ok {
		return c
	}
	if fc.chanCalls == nil {
		fc.chanCalls = map[ast.Node]*ast.CallExpr{}
	}
	c := &ast.CallExpr{Fun: &ast.Ident{NamePos: pos, Name: kind}, Lparen: pos, Rparen: pos}
	fc.chanCalls[node] = c
	fc.callOrd[c] = callSite{kind, n}
	return c
}

func (fc *FuncCtx) chanOp(kind string, node ast.Node, st *State, ch *Value, chT types.Type, arg *Value) []*Value {
	e := fc.e
	ct0, _ := chT.Underlying().(*types.Chan)
	if ct0 == nil {
		fc.unsupp(node, "channel operation on %s", chT)
	}
	var c *ast.CallExpr
	if call, ok := node.(*ast.CallExpr); ok {
		c = call // close(ch): the builtin call itself is the call site
	} else if c = fc.chanCalls[node]; c == nil {
		fc.unsupp(node, "channel operation outside the prepared body")
	}
	_, callerKey := funcKey(fc.fn)
	ct := e.contractFor("chan", kind+"@"+callerKey)
	if ct == nil {
		fc.unsupp(node, "channel %s without a contract chan:%s@%s", kind, kind, callerKey)
	}
	e.assumed["channel operations are read sequentially (contract chan:"+kind+"@"+callerKey+"): blocking, interleavings and deadlock are not modelled"] = true
	params := []*types.Var{types.NewParam(token.NoPos, nil, "ch", chT)}
	args := []*Value{ch}
	var results []*types.Var
	switch kind {
	case "send":
		params = append(params, types.NewParam(token.NoPos, nil, "v", ct0.Elem()))
		args = append(args, fc.convertTo(arg, e.shapeOf(ct0.Elem())))
	case "recv":
		results = []*types.Var{types.NewParam(token.NoPos, nil, "v", ct0.Elem()), types.NewParam(token.NoPos, nil, "ok", types.Typ[types.Bool])}
	}
	sig := types.NewSignatureType(nil, nil, nil, types.NewTuple(params...), types.NewTuple(results...), false)
	fn := types.NewFunc(token.NoPos, nil, kind, sig)
	res := fc.applyContract(c, st, ct, fn, sig, nil, args)
	if kind == "recv" {
		// a receive from a closed channel yields the zero value
		z := e.zeroValue(res[0].Sh)
		for i := range res[0].L {
			st.assume(imp(not(res[1].T()), eq(res[0].L[i], z.L[i])))
		}
	}
	return res
}

// execSelect supports the one stylised form that occurs in the code under contract: a select
// with a single communication clause and no default, which is that communication followed by
// the clause body.
func (fc *FuncCtx) execSelect(x *ast.SelectStmt, st *State) *State {
	if len(x.Body.List) != 1 {
		fc.unsupp(x, "select with %d clauses", len(x.Body.List))
	}
	cc := x.Body.List[0].(*ast.CommClause)
	if cc.Comm == nil {
		fc.unsupp(x, "select with only a default clause")
	}
	fr := &frame{kind: "switch"}
	fc.frames = append(fc.frames, fr)
	st = fc.execStmt(cc.Comm, st)
	var out *State
	if st != nil {
		out = fc.execBlock(&ast.BlockStmt{List: cc.Body}, st)
	}
	fc.frames = fc.frames[:len(fc.frames)-1]
	outs := append([]*State{}, fr.brk...)
	if out != nil {
		outs = append(outs, out)
	}
	if len(outs) == 0 {
		return nil
	}
	return fc.e.merge(outs)
}

// unrelatedPointees reports whether *T and *U cannot alias: both point to named struct types, the types
// differ, and neither struct embeds (transitively, anywhere) a struct of the other type.
func unrelatedPointees(t, u types.Type) bool {
	pt, ok1 := types.Unalias(t).Underlying().(*types.Pointer)
	pu, ok2 := types.Unalias(u).Underlying().(*types.Pointer)
	if !ok1 || !ok2 {
		return false
	}
	st, ok1 := pt.Elem().Underlying().(*types.Struct)
	su, ok2 := pu.Elem().Underlying().(*types.Struct)
	if !ok1 || !ok2 || types.Identical(pt.Elem(), pu.Elem()) {
		return false
	}
	var contains func(outer *types.Struct, inner types.Type, depth int) bool
	contains = func(outer *types.Struct, inner types.Type, depth int) bool {
		if depth > 6 {
			return true // be conservative
		}
		for i := 0; i < outer.NumFields(); i++ {
			ft := outer.Field(i).Type()
			if types.Identical(ft, inner) {
				return true
			}
			if fs, ok := ft.Underlying().(*types.Struct); ok && contains(fs, inner, depth+1) {
				return true
			}
		}
		return false
	}
	return !contains(st, pu.Elem(), 0) && !contains(su, pt.Elem(), 0)
}

// ---------------------------------------------------------------- tolerance for renamed locals
//
// Contracts name local variables of the function (loop invariants have to).  A pure rename of a local is a
// harmless edit and must not raise an alarm: the table of locals of every function under contract (name and
// type in declaration order) is recorded with the baseline; when a contract mentions a name that no longer
// exists, and the function still declares the same number of locals with the same types in the same order,
// the variable now standing at the recorded position of the old name is taken.  This is sound: which program
// variable an auxiliary invariant talks about does not matter as long as the obligations are discharged; the
// property clauses themselves speak about parameters, results, the heap and ghost state.

type localEntry struct {
	Name string `json:"name"`
	Type string `json:"type"`
}

func (fc *FuncCtx) localTable() []localEntry {
	var out []localEntry
	seen := map[types.Object]bool{}
	add := func(v *types.Var) {
		if v == nil || seen[v] || v.Name() == "_" || v.Name() == "" {
			return
		}
		seen[v] = true
		out = append(out, localEntry{v.Name(), types.TypeString(v.Type(), func(p *types.Package) string { return p.Name() })})
	}
	if r := fc.sig.Recv(); r != nil {
		add(r)
	}
	for i := 0; i < fc.sig.Params().Len(); i++ {
		add(fc.sig.Params().At(i))
	}
	for i := 0; i < fc.sig.Results().Len(); i++ {
		add(fc.sig.Results().At(i))
	}
	ast.Inspect(fc.decl.Body, func(n ast.Node) bool {
		if id, ok := n.(*ast.Ident); ok {
			if v, ok := fc.info.Defs[id].(*types.Var); ok && !v.IsField() {
				add(v)
			}
		}
		return true
	})
	return out
}

func (fc *FuncCtx) renamedLocal(name string) string {
	base := fc.e.baseLocals[fc.baseName()]
	if len(base) == 0 {
		return ""
	}
	cur := fc.localTable()
	if len(cur) != len(base) {
		return ""
	}
	baseNames := map[string]bool{}
	for i := range base {
		baseNames[base[i].Name] = true
		if base[i].Type != cur[i].Type {
			return ""
		}
	}
	for i := range base {
		if base[i].Name == name && cur[i].Name != name && !baseNames[cur[i].Name] {
			fc.e.note("contract name " + name + " in " + fc.baseName() + " resolved to the renamed local " + cur[i].Name)
			return cur[i].Name
		}
	}
	return ""
}

// baseName is the function name without the profile suffix.
func (fc *FuncCtx) baseName() string {
	if k := strings.Index(fc.name, "["); k > 0 {
		return fc.name[:k]
	}
	return fc.name
}

// replaceIdent replaces whole-word occurrences of an identifier.
func replaceIdent(s, from, to string) string {
	var b strings.Builder
	isId := func(c byte) bool { return c == '_' || c >= '0' && c <= '9' || c >= 'a' && c <= 'z' || c >= 'A' && c <= 'Z' }
	for i := 0; i < len(s); {
		if strings.HasPrefix(s[i:], from) && (i == 0 || !isId(s[i-1])) && (i+len(from) == len(s) || !isId(s[i+len(from)])) {
			b.WriteString(to)
			i += len(from)
			continue
		}
		b.WriteByte(s[i])
		i++
	}
	return b.String()
}
