package main

// Shapes: how Go types are represented in SMT.  A value of a shape is a flat
// list of SMT leaf terms (struct-of-arrays flattening; see DESIGN.md 3.3).

import (
	"fmt"
	"go/types"
	"sort"
	"strings"
)

type Kind int

const (
	KInt Kind = iota
	KBool
	KStr
	KRef    // pointer: Int, 0 = nil
	KMapRef // Go map: reference into the map heap, 0 = nil map
	KErr    // error interface: Int, 0 = nil
	KIface  // other interfaces: (dynamic type tag, payload ref/int)
	KFunc
	KOpaque // value with identity only (uninterpreted)
	KStruct
	KSlice
	KSet   // spec-only: Array K Bool
	KTotal // spec-only: Array K V (V scalar)
	KUnit  // zero leaves (struct{} etc.)
)

type Field struct {
	Name     string
	Sh       *Shape
	Embedded bool
}

type Shape struct {
	Kind     Kind
	Go       types.Type
	Name     string // struct key / map key / box key
	elem     *Shape
	elemGo   types.Type
	Key      *Shape
	Fields   []*Field
	Bits     int // sized ints: 8,16,32 (0 = mathematical; int and int64 are treated as mathematical)
	Unsigned bool
	nl       int
	sorts    []string
	eng      *Engine
}

func (s *Shape) Elem() *Shape {
	if s.elem == nil && s.elemGo != nil {
		s.elem = s.eng.shapeOf(s.elemGo)
	}
	return s.elem
}

func (s *Shape) String() string {
	switch s.Kind {
	case KInt:
		if s.Bits > 0 {
			return fmt.Sprintf("int%d", s.Bits)
		}
		return "int"
	case KBool:
		return "bool"
	case KStr:
		return "string"
	case KRef:
		if s.elemGo != nil {
			return "*" + types.TypeString(s.elemGo, nil)
		}
		if s.elem != nil {
			return "*" + s.elem.String()
		}
		return "ref"
	case KMapRef:
		return "map:" + s.Name
	case KErr:
		return "error"
	case KIface:
		return "iface"
	case KFunc:
		return "func"
	case KOpaque:
		return "opaque:" + s.Name
	case KStruct:
		return "struct:" + s.Name
	case KSlice:
		return "[]" + s.Elem().String()
	case KSet:
		return "set[" + s.Key.String() + "]"
	case KTotal:
		return "total[" + s.Key.String() + "]" + s.Elem().String()
	case KUnit:
		return "unit"
	}
	return "?"
}

var pkgAlias = map[string]string{
	"k8s.io/api/core/v1":                                                          "core",
	"k8s.io/api/apps/v1":                                                          "kapps",
	"github.com/pingcap/advanced-statefulset/client/apis/apps/v1":                 "apps",
	"k8s.io/apimachinery/pkg/apis/meta/v1":                                        "meta",
	"github.com/pingcap/advanced-statefulset/pkg/controller/statefulset":          "sts",
	"github.com/pingcap/advanced-statefulset/pkg/third_party/k8s":                 "k8s",
	"github.com/pingcap/advanced-statefulset/client/apis/apps/v1/helper":          "helper",
	"github.com/pingcap/advanced-statefulset/client/apis/apps/v1/third_party/k8s": "k8sdef",
}

func typeKey(t types.Type) string {
	switch tt := t.(type) {
	case *types.Named:
		obj := tt.Obj()
		if obj.Pkg() == nil {
			return obj.Name()
		}
		p := obj.Pkg().Path()
		if a, ok := pkgAlias[p]; ok {
			return a + "." + obj.Name()
		}
		parts := strings.Split(p, "/")
		if len(parts) >= 2 {
			return sanitize(parts[len(parts)-2]+"_"+parts[len(parts)-1]) + "." + obj.Name()
		}
		return sanitize(p) + "." + obj.Name()
	case *types.Alias:
		return typeKey(types.Unalias(tt))
	}
	return sanitize(types.TypeString(t, func(p *types.Package) string {
		if a, ok := pkgAlias[p.Path()]; ok {
			return a
		}
		return p.Name()
	}))
}

func sanitize(s string) string {
	var b strings.Builder
	for _, r := range s {
		switch {
		case r >= 'a' && r <= 'z', r >= 'A' && r <= 'Z', r >= '0' && r <= '9', r == '_', r == '.':
			b.WriteRune(r)
		case r == '*':
			b.WriteString("P")
		case r == '[' || r == ']':
			b.WriteString("_")
		default:
			b.WriteString("_")
		}
	}
	return b.String()
}

var (
	shInt    = &Shape{Kind: KInt}
	shInt32  = &Shape{Kind: KInt, Bits: 32}
	shBool   = &Shape{Kind: KBool}
	shStr    = &Shape{Kind: KStr}
	shRef    = &Shape{Kind: KRef}
	shErr    = &Shape{Kind: KErr}
	shUnit   = &Shape{Kind: KUnit}
	shFunc   = &Shape{Kind: KFunc}
	shIface  = &Shape{Kind: KIface}
	shOpaque = &Shape{Kind: KOpaque, Name: "any"}
)

func (e *Engine) shapeOf(t types.Type) *Shape {
	t = types.Unalias(t)
	key := types.TypeString(t, nil)
	if s, ok := e.shapes[key]; ok {
		return s
	}
	s := e.mkShape(t)
	s.eng = e
	if s.Go == nil {
		s.Go = t
	}
	e.shapes[key] = s
	return s
}

func isErrorType(t types.Type) bool {
	n, ok := t.(*types.Named)
	return ok && n.Obj().Pkg() == nil && n.Obj().Name() == "error"
}

func (e *Engine) mkShape(t types.Type) *Shape {
	if isErrorType(t) {
		return &Shape{Kind: KErr, Go: t}
	}
	switch u := t.Underlying().(type) {
	case *types.Basic:
		switch {
		case u.Info()&types.IsBoolean != 0:
			return &Shape{Kind: KBool, Go: t}
		case u.Info()&types.IsString != 0:
			return &Shape{Kind: KStr, Go: t}
		case u.Info()&types.IsInteger != 0:
			s := &Shape{Kind: KInt, Go: t}
			switch u.Kind() {
			case types.Int8:
				s.Bits = 8
			case types.Int16:
				s.Bits = 16
			case types.Int32:
				s.Bits = 32
			case types.Uint8:
				s.Bits, s.Unsigned = 8, true
			case types.Uint16:
				s.Bits, s.Unsigned = 16, true
			case types.Uint32:
				s.Bits, s.Unsigned = 32, true
			case types.Uint, types.Uint64, types.Uintptr:
				s.Bits, s.Unsigned = 64, true
			}
			return s
		case u.Kind() == types.UntypedNil:
			return &Shape{Kind: KRef, Go: t}
		default:
			return &Shape{Kind: KOpaque, Go: t, Name: "basic"}
		}
	case *types.Pointer:
		return &Shape{Kind: KRef, Go: t, elemGo: u.Elem()}
	case *types.Map:
		ks := e.shapeOf(u.Key())
		s := &Shape{Kind: KMapRef, Go: t, Key: ks, elemGo: u.Elem()}
		s.Name = "map." + typeKey(u.Key()) + "." + typeKey(u.Elem())
		return s
	case *types.Slice:
		return &Shape{Kind: KSlice, Go: t, elemGo: u.Elem()}
	case *types.Array:
		return &Shape{Kind: KOpaque, Go: t, Name: "array"}
	case *types.Interface:
		return &Shape{Kind: KIface, Go: t}
	case *types.Signature:
		return &Shape{Kind: KFunc, Go: t}
	case *types.Chan:
		return &Shape{Kind: KOpaque, Go: t, Name: "chan"}
	case *types.Struct:
		s := &Shape{Kind: KStruct, Go: t, Name: typeKey(t)}
		// register before recursing (recursive value types do not occur, but be safe)
		e.shapes[types.TypeString(t, nil)] = s
		s.eng = e
		for i := 0; i < u.NumFields(); i++ {
			f := u.Field(i)
			if !f.Embedded() && !e.fieldNames[f.Name()] && !e.typedFields[typeKey(t)+"."+f.Name()] {
				continue
			}
			fs := e.shapeOf(f.Type())
			if f.Embedded() && e.nLeaves(fs) == 0 {
				continue
			}
			if f.Embedded() && fs.Kind == KOpaque && !e.fieldNames[f.Name()] {
				continue
			}
			s.Fields = append(s.Fields, &Field{Name: f.Name(), Sh: fs, Embedded: f.Embedded()})
		}
		if len(s.Fields) == 0 {
			if u.NumFields() == 0 {
				s.Kind = KUnit
			} else {
				s.Kind = KOpaque
			}
		}
		return s
	}
	return &Shape{Kind: KOpaque, Go: t, Name: "other"}
}

func (e *Engine) nLeaves(s *Shape) int {
	return len(e.leafSorts(s))
}

func (e *Engine) leafSorts(s *Shape) []string {
	if s.sorts != nil {
		return s.sorts
	}
	var out []string
	switch s.Kind {
	case KInt, KRef, KMapRef, KErr, KFunc, KOpaque:
		out = []string{"Int"}
	case KBool:
		out = []string{"Bool"}
	case KStr:
		out = []string{"Str"}
	case KIface:
		out = []string{"Int", "Int"}
	case KUnit:
		out = []string{}
	case KSet:
		out = []string{"(Array " + e.leafSorts(s.Key)[0] + " Bool)"}
	case KTotal:
		out = []string{"(Array " + e.leafSorts(s.Key)[0] + " " + e.leafSorts(s.Elem())[0] + ")"}
	case KStruct:
		for _, f := range s.Fields {
			out = append(out, e.leafSorts(f.Sh)...)
		}
	case KSlice:
		out = []string{"Int"}
		for _, ls := range e.leafSorts(s.Elem()) {
			out = append(out, "(Array Int "+ls+")")
		}
	}
	if out == nil {
		out = []string{}
	}
	s.sorts = out
	return out
}

// leafRefs reports, for each leaf of a shape, whether it is a scalar reference
// (pointer, map, interface payload) whose value denotes an allocated object.
func (e *Engine) leafRefs(s *Shape) []bool {
	var out []bool
	switch s.Kind {
	case KRef, KMapRef:
		out = []bool{true}
	case KIface:
		out = []bool{false, true}
	case KStruct:
		for _, f := range s.Fields {
			out = append(out, e.leafRefs(f.Sh)...)
		}
	default:
		out = make([]bool, e.nLeaves(s))
	}
	return out
}

// leafSliceRefs reports, for each leaf of a shape, whether it is the lifted element array of a slice
// whose elements are references (pointer or map): such a leaf has sort (Array Int Int) and every element
// that exists at function entry denotes an object that exists at function entry.
func (e *Engine) leafSliceRefs(s *Shape) []bool {
	var out []bool
	switch s.Kind {
	case KStruct:
		for _, f := range s.Fields {
			out = append(out, e.leafSliceRefs(f.Sh)...)
		}
	case KSlice:
		out = []bool{false}
		out = append(out, e.leafRefs(s.Elem())...)
		if s.Elem().Kind == KIface {
			// interface elements: payloads are not necessarily references
			for i := range out {
				out[i] = false
			}
		}
	default:
		out = make([]bool, e.nLeaves(s))
	}
	return out
}

// ---------------------------------------------------------------- values

type Value struct {
	Sh *Shape
	L  []string
}

func (v *Value) T() string {
	if len(v.L) != 1 {
		panic(fmt.Sprintf("T() on value of shape %s with %d leaves", v.Sh, len(v.L)))
	}
	return v.L[0]
}

func scalar(sh *Shape, t string) *Value { return &Value{Sh: sh, L: []string{t}} }

func (e *Engine) fieldRange(s *Shape, name string) (off, n int, fs *Shape, ok bool) {
	if s.Kind != KStruct {
		return 0, 0, nil, false
	}
	o := 0
	for _, f := range s.Fields {
		k := e.nLeaves(f.Sh)
		if f.Name == name {
			return o, k, f.Sh, true
		}
		o += k
	}
	return 0, 0, nil, false
}

func (e *Engine) field(v *Value, name string) (*Value, bool) {
	off, n, fs, ok := e.fieldRange(v.Sh, name)
	if !ok {
		return nil, false
	}
	return &Value{Sh: fs, L: v.L[off : off+n]}, true
}

func (e *Engine) withField(v *Value, name string, fv *Value) *Value {
	off, n, _, ok := e.fieldRange(v.Sh, name)
	if !ok {
		panic("withField: no field " + name + " in " + v.Sh.String())
	}
	if len(fv.L) != n {
		panic(fmt.Sprintf("withField %s: leaf count mismatch %d vs %d", name, len(fv.L), n))
	}
	nl := append([]string(nil), v.L...)
	copy(nl[off:off+n], fv.L)
	return &Value{Sh: v.Sh, L: nl}
}

func sliceLen(v *Value) string { return v.L[0] }

func (e *Engine) sliceElem(v *Value, idx string) *Value {
	es := v.Sh.Elem()
	out := make([]string, len(v.L)-1)
	for i := range out {
		out[i] = sel(v.L[1+i], idx)
	}
	return &Value{Sh: es, L: out}
}

func (e *Engine) sliceStore(v *Value, idx string, ev *Value) *Value {
	nl := append([]string(nil), v.L...)
	for i := range ev.L {
		nl[1+i] = sto(v.L[1+i], idx, ev.L[i])
	}
	return &Value{Sh: v.Sh, L: nl}
}

func (e *Engine) zeroLeaf(sort string) string {
	switch {
	case sort == "Int":
		return "0"
	case sort == "Bool":
		return "false"
	case sort == "Str":
		return e.strLit("")
	case strings.HasPrefix(sort, "(Array "):
		// (Array K V): constant array of zero V
		k, v := splitArraySort(sort)
		_ = k
		return "((as const " + sort + ") " + e.zeroLeaf(v) + ")"
	}
	panic("zeroLeaf: " + sort)
}

func splitArraySort(s string) (string, string) {
	// s = "(Array K V)"; K and V may be nested.
	inner := s[len("(Array ") : len(s)-1]
	depth := 0
	for i := 0; i < len(inner); i++ {
		switch inner[i] {
		case '(':
			depth++
		case ')':
			depth--
		case ' ':
			if depth == 0 {
				return inner[:i], inner[i+1:]
			}
		}
	}
	panic("bad array sort " + s)
}

func (e *Engine) zeroValue(sh *Shape) *Value {
	sorts := e.leafSorts(sh)
	l := make([]string, len(sorts))
	for i, s := range sorts {
		l[i] = e.zeroLeaf(s)
	}
	return &Value{Sh: sh, L: l}
}

func (e *Engine) freshValue(sh *Shape, hint string) *Value {
	sorts := e.leafSorts(sh)
	l := make([]string, len(sorts))
	for i, s := range sorts {
		l[i] = e.fresh(hint, s)
	}
	return &Value{Sh: sh, L: l}
}

// typeFacts returns the type-invariant facts for a value (ranges of sized
// ints, non-negative lengths and references).
func (e *Engine) typeFacts(v *Value) []string {
	var out []string
	var walk func(sh *Shape, l []string)
	walk = func(sh *Shape, l []string) {
		switch sh.Kind {
		case KInt:
			if sh.Bits > 0 {
				lo, hi := intRange(sh)
				out = append(out, "(and (<= "+lo+" "+l[0]+") (<= "+l[0]+" "+hi+"))")
			}
		case KRef, KMapRef, KErr, KFunc:
			out = append(out, "(<= 0 "+l[0]+")")
		case KIface:
			out = append(out, "(<= 0 "+l[0]+")")
		case KStruct:
			o := 0
			for _, f := range sh.Fields {
				n := e.nLeaves(f.Sh)
				walk(f.Sh, l[o:o+n])
				o += n
			}
		case KSlice:
			out = append(out, "(<= 0 "+l[0]+")")
		}
	}
	walk(v.Sh, v.L)
	return out
}

func intRange(sh *Shape) (string, string) {
	if sh.Unsigned {
		switch sh.Bits {
		case 8:
			return "0", "255"
		case 16:
			return "0", "65535"
		case 32:
			return "0", "4294967295"
		default:
			return "0", "18446744073709551615"
		}
	}
	switch sh.Bits {
	case 8:
		return "(- 128)", "127"
	case 16:
		return "(- 32768)", "32767"
	case 32:
		return "(- 2147483648)", "2147483647"
	}
	return "(- 9223372036854775808)", "9223372036854775807"
}

// ---------------------------------------------------------------- SMT term helpers

type storeParts struct{ base, idx, val string }

var storeInfo = map[string]storeParts{}

func sel(a, i string) string {
	if p, ok := storeInfo[a]; ok && p.idx == i {
		return p.val
	}
	return "(select " + a + " " + i + ")"
}
func sto(a, i, v string) string {
	// overwriting the same index drops the inner store
	if p, ok := storeInfo[a]; ok && p.idx == i {
		a = p.base
	}
	t := "(store " + a + " " + i + " " + v + ")"
	storeInfo[t] = storeParts{a, i, v}
	return t
}
func app(f string, args ...string) string {
	if len(args) == 0 {
		return f
	}
	return "(" + f + " " + strings.Join(args, " ") + ")"
}
func not(a string) string {
	if a == "true" {
		return "false"
	}
	if a == "false" {
		return "true"
	}
	if strings.HasPrefix(a, "(not ") && balanced(a[5:len(a)-1]) {
		return a[5 : len(a)-1]
	}
	return "(not " + a + ")"
}
func balanced(s string) bool {
	d := 0
	for i := 0; i < len(s); i++ {
		if s[i] == '(' {
			d++
		} else if s[i] == ')' {
			d--
			if d < 0 {
				return false
			}
		}
	}
	return d == 0
}
func and(as ...string) string {
	var out []string
	for _, a := range as {
		if a == "true" {
			continue
		}
		if a == "false" {
			return "false"
		}
		out = append(out, a)
	}
	switch len(out) {
	case 0:
		return "true"
	case 1:
		return out[0]
	}
	return "(and " + strings.Join(out, " ") + ")"
}
func or(as ...string) string {
	var out []string
	for _, a := range as {
		if a == "false" {
			continue
		}
		if a == "true" {
			return "true"
		}
		out = append(out, a)
	}
	switch len(out) {
	case 0:
		return "false"
	case 1:
		return out[0]
	}
	return "(or " + strings.Join(out, " ") + ")"
}
func imp(a, b string) string {
	if a == "true" {
		return b
	}
	if a == "false" || b == "true" {
		return "true"
	}
	return "(=> " + a + " " + b + ")"
}
func eq(a, b string) string {
	if a == b {
		return "true"
	}
	return "(= " + a + " " + b + ")"
}
func ite(c, a, b string) string {
	if c == "true" {
		return a
	}
	if c == "false" {
		return b
	}
	if a == b {
		return a
	}
	return "(ite " + c + " " + a + " " + b + ")"
}
func intLit(s string) string {
	if strings.HasPrefix(s, "-") {
		return "(- " + s[1:] + ")"
	}
	return s
}

func sortedStrings(m map[string]bool) []string {
	out := make([]string, 0, len(m))
	for k := range m {
		out = append(out, k)
	}
	sort.Strings(out)
	return out
}
