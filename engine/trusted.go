package main

// Trusted-code watch.  A function whose contract says `trusted` is not verified: its contract is an
// assumption about code that lives in the repository and can be edited.  So that such an edit does not go
// unnoticed, a digest of the body of every trusted function (and of the same-module functions without a
// contract that it calls, transitively - they are covered by the same assumption) is recorded with the
// baseline.  A check whose proof used a trusted function whose digest differs from the baseline re-checks
// the assumption the only way left: it runs the bounded conformance tests and the replay harnesses of the
// property on the real code, at once, in the quick tier too.  A reproduced failing input is a violation;
// nothing found is reported as a note and recorded in the evidence as bounded - never as proved.

import (
	"bytes"
	"crypto/sha256"
	"encoding/hex"
	"encoding/json"
	"go/ast"
	"go/printer"
	"go/types"
	"os"
	"path/filepath"
	"sort"
	"strings"

	"golang.org/x/tools/go/packages"
)

func (e *Engine) pkgOfPath(path string) *packages.Package { return e.pkgs[path] }

// trustedDigest returns the digest of the function pkgPath:key, or "" when it has no body in a loaded package.
func (e *Engine) trustedDigest(pkgPath, key string) string {
	pkg := e.pkgOfPath(pkgPath)
	if pkg == nil {
		return ""
	}
	decl := e.findFunc(pkg, key)
	if decl == nil {
		return ""
	}
	var buf bytes.Buffer
	seen := map[*ast.FuncDecl]bool{}
	var walk func(p *packages.Package, d *ast.FuncDecl)
	walk = func(p *packages.Package, d *ast.FuncDecl) {
		if seen[d] {
			return
		}
		seen[d] = true
		// the declaration without its doc comment; comments inside the body are not part of the node
		printer.Fprint(&buf, e.fset, &ast.FuncDecl{Recv: d.Recv, Name: d.Name, Type: d.Type, Body: d.Body})
		buf.WriteString("\n")
		var callees []*types.Func
		ast.Inspect(d.Body, func(n ast.Node) bool {
			c, ok := n.(*ast.CallExpr)
			if !ok {
				return true
			}
			var obj types.Object
			switch f := c.Fun.(type) {
			case *ast.Ident:
				obj = p.TypesInfo.Uses[f]
			case *ast.SelectorExpr:
				if sel := p.TypesInfo.Selections[f]; sel != nil {
					obj = sel.Obj()
				} else {
					obj = p.TypesInfo.Uses[f.Sel]
				}
			}
			if fn, ok := obj.(*types.Func); ok {
				callees = append(callees, fn)
			}
			return true
		})
		sort.Slice(callees, func(i, j int) bool { return callees[i].FullName() < callees[j].FullName() })
		for _, fn := range callees {
			pp, k := funcKey(fn)
			cp := e.pkgOfPath(pp)
			if cp == nil || e.contractFor(pp, k) != nil {
				continue // outside the loaded packages, or under a contract of its own
			}
			if cd := e.findFunc(cp, k); cd != nil {
				walk(cp, cd)
			}
		}
	}
	walk(pkg, decl)
	sum := sha256.Sum256(buf.Bytes())
	return hex.EncodeToString(sum[:8])
}

// trustedChanged lists the trusted functions used in this run whose digest differs from the recorded one.
func (e *Engine) trustedChanged(verif string) []string {
	base := map[string]string{}
	if data, err := os.ReadFile(filepath.Join(verif, "baseline_trusted.json")); err == nil {
		json.Unmarshal(data, &base)
	}
	var out []string
	for k := range e.trustedUsed {
		i := strings.LastIndex(k, ":")
		want, ok := base[k]
		if !ok {
			continue
		}
		if got := e.trustedDigest(k[:i], k[i+1:]); got != "" && got != want {
			out = append(out, k)
		}
	}
	sort.Strings(out)
	return out
}

func (e *Engine) writeTrustedBaseline(verif string) {
	base := map[string]string{}
	if data, err := os.ReadFile(filepath.Join(verif, "baseline_trusted.json")); err == nil {
		json.Unmarshal(data, &base)
	}
	for k := range e.trustedUsed {
		i := strings.LastIndex(k, ":")
		if d := e.trustedDigest(k[:i], k[i+1:]); d != "" {
			base[k] = d
		}
	}
	data, _ := json.MarshalIndent(base, "", " ")
	writeFileAtomic(filepath.Join(verif, "baseline_trusted.json"), data)
}
