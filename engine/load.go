package main

import (
	"strconv"
	"fmt"
	"go/ast"
	"go/token"
	"go/types"
	"os"
	"path/filepath"
	"sort"
	"strings"

	"golang.org/x/tools/go/packages"
)

const modRoot = "github.com/pingcap/advanced-statefulset"

var targetPkgs = []string{
	modRoot + "/pkg/controller/statefulset",
	modRoot + "/pkg/third_party/k8s",
	modRoot + "/client/apis/apps/v1/helper",
	modRoot + "/client/client/listers/apps/v1",
}

// defaultingPkgs are loaded as targets only for the properties that verify them (C19):
// their field accesses would otherwise inflate every struct value.
var defaultingPkgs = []string{
	modRoot + "/client/apis/apps/v1",
	modRoot + "/client/apis/apps/v1/third_party/k8s",
}

func pkgsFor(shorts ...string) []string {
	out := append([]string{}, targetPkgs...)
	for _, s := range shorts {
		if s == "apps" || s == "k8sdef" {
			return append(out, defaultingPkgs...)
		}
	}
	return out
}

func (e *Engine) load(repo string, verifDir string, pkgs []string) error {
	e.fset = token.NewFileSet()
	cfg := &packages.Config{
		Mode: packages.NeedName | packages.NeedFiles | packages.NeedSyntax | packages.NeedTypes |
			packages.NeedTypesInfo | packages.NeedDeps | packages.NeedImports | packages.NeedModule,
		Dir:        repo,
		Fset:       e.fset,
		BuildFlags: []string{"-tags=verif"},
		Env: append(os.Environ(), "GOFLAGS=-mod=mod", "GOPROXY=off", "GOSUMDB=off", "GOTOOLCHAIN=local",
			"GOWORK=off"),
		// only the target packages need function bodies type-checked in full
		ParseFile: nil,
	}
	loaded, err := packages.Load(cfg, pkgs...)
	if err != nil {
		return err
	}
	for _, p := range loaded {
		if len(p.Errors) > 0 {
			return fmt.Errorf("package %s: %v", p.PkgPath, p.Errors[0])
		}
		e.pkgs[p.PkgPath] = p
	}
	// contract files: beside the code (zz_contracts_verif.go) and external specs
	for _, p := range loaded {
		if len(p.GoFiles) == 0 {
			continue
		}
		dir := filepath.Dir(p.GoFiles[0])
		cpath := filepath.Join(dir, "zz_contracts_verif.go")
		if _, err := os.Stat(cpath); err == nil {
			cf, err := readContractFile(cpath, p.PkgPath)
			if err != nil {
				return err
			}
			e.cfiles = append(e.cfiles, cf)
		}
	}
	ext, _ := filepath.Glob(filepath.Join(verifDir, "contracts", "external", "*.spec"))
	sort.Strings(ext)
	for _, path := range ext {
		cf, err := readContractFile(path, "")
		if err != nil {
			return err
		}
		e.cfiles = append(e.cfiles, cf)
	}
	// field table: every (struct type, field) selected in the target packages or
	// named in a composite literal there; plus every ".name" in a contract (any type)
	rec := func(t types.Type, name string) {
		if pt, ok := t.Underlying().(*types.Pointer); ok {
			t = pt.Elem()
		}
		e.typedFields[typeKey(t)+"."+name] = true
	}
	for _, p := range loaded {
		for _, f := range p.Syntax {
			ast.Inspect(f, func(n ast.Node) bool {
				switch x := n.(type) {
				case *ast.SelectorExpr:
					if s := p.TypesInfo.Selections[x]; s != nil && s.Kind() == types.FieldVal {
						t := s.Recv()
						for _, idx := range s.Index() {
							if pt, ok := t.Underlying().(*types.Pointer); ok {
								t = pt.Elem()
							}
							su, ok := t.Underlying().(*types.Struct)
							if !ok {
								break
							}
							rec(t, su.Field(idx).Name())
							t = su.Field(idx).Type()
						}
					}
				case *ast.CompositeLit:
					lt := p.TypesInfo.TypeOf(x)
					if lt == nil {
						return true
					}
					su, ok := lt.Underlying().(*types.Struct)
					if !ok {
						return true
					}
					for i, el := range x.Elts {
						if kv, ok := el.(*ast.KeyValueExpr); ok {
							if id, ok := kv.Key.(*ast.Ident); ok {
								rec(lt, id.Name)
							}
						} else if i < su.NumFields() {
							rec(lt, su.Field(i).Name())
						}
					}
				}
				return true
			})
		}
	}
	for _, cf := range e.cfiles {
		specFieldNames(cf.Text, e.fieldNames)
	}
	// register contract file contents
	for _, cf := range e.cfiles {
		for k, v := range cf.Consts {
			e.consts[k] = v
		}
		for _, sf := range cf.SpecFuncs {
			if _, dup := e.specFuncs[sf.Name]; dup {
				return fmt.Errorf("%s: duplicate spec func %s", cf.Path, sf.Name)
			}
			e.specFuncs[sf.Name] = sf
		}
		e.axioms = append(e.axioms, cf.Axioms...)
		e.lemmas = append(e.lemmas, cf.Lemmas...)
		for _, gi := range cf.GlobalInits {
			if e.globalInits == nil {
				e.globalInits = map[string]*GlobalInit{}
			}
			e.globalInits[cf.PkgPath+":"+gi.Name] = gi
		}
		for _, g := range cf.Globals {
			e.globals[g.Name] = g
		}
		for _, d := range cf.Dropped {
			e.dropped[d] = true
		}
		for _, d := range cf.Opaque {
			e.opaque[d] = true
		}
		for k, v := range cf.SortSpecs {
			e.sortSpecs[k] = v
		}
		for _, c := range cf.Contracts {
			key := c.Key
			if !strings.Contains(key, ":") {
				if cf.PkgPath == "" {
					return fmt.Errorf("%s:%d: contract %q in an external file needs a pkgpath:Key", cf.Path, c.Line, key)
				}
				key = cf.PkgPath + ":" + key
			}
			if _, dup := e.contracts[key]; dup {
				return fmt.Errorf("%s:%d: duplicate contract %s", cf.Path, c.Line, key)
			}
			e.contracts[key] = c
		}
	}
	return nil
}

// findFunc locates a function declaration by "Name" or "Recv.Name" in a package.
func (e *Engine) findFunc(pkg *packages.Package, key string) *ast.FuncDecl {
	// F$litN: the N-th function literal (in source order) inside function F, verified as a function of its
	// own; variables it captures are treated as additional parameters
	if k := strings.Index(key, "$lit"); k > 0 {
		outer := e.findFunc(pkg, key[:k])
		n, err := strconv.Atoi(key[k+4:])
		if outer == nil || err != nil {
			return nil
		}
		cnt := 0
		var found *ast.FuncLit
		ast.Inspect(outer.Body, func(nd ast.Node) bool {
			if l, ok := nd.(*ast.FuncLit); ok {
				cnt++
				if cnt == n && found == nil {
					found = l
				}
			}
			return true
		})
		if found == nil {
			return nil
		}
		sig, _ := pkg.TypesInfo.TypeOf(found).(*types.Signature)
		if sig == nil {
			return nil
		}
		decl := &ast.FuncDecl{Name: &ast.Ident{NamePos: found.Pos(), Name: key}, Type: found.Type, Body: found.Body}
		if e.litFuncs == nil {
			e.litFuncs = map[*ast.FuncDecl]*types.Func{}
			e.litNodes = map[*ast.FuncDecl]*ast.FuncLit{}
		}
		e.litFuncs[decl] = types.NewFunc(found.Pos(), pkg.Types, key, sig)
		e.litNodes[decl] = found
		return decl
	}
	for _, f := range pkg.Syntax {
		for _, d := range f.Decls {
			fd, ok := d.(*ast.FuncDecl)
			if !ok || fd.Body == nil {
				continue
			}
			fn, ok := pkg.TypesInfo.Defs[fd.Name].(*types.Func)
			if !ok {
				continue
			}
			_, k := funcKey(fn)
			if k == key {
				return fd
			}
		}
	}
	return nil
}

func (e *Engine) pkgByShort(short string) *packages.Package {
	for path, p := range e.pkgs {
		if shortPkg(path) == short || path == short {
			return p
		}
	}
	return nil
}

func sortStrings(s []string) { sort.Strings(s) }
