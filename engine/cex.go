package main

// Bounded search for a concrete failing input on the real code after an
// obligation has failed (DESIGN.md section 5).  The harness files live under
// /verif/replay and are injected with `go test -overlay`; nothing is written
// into the repository.

import (
	"encoding/json"
	"fmt"
	"os"
	"os/exec"
	"path/filepath"
	"strings"
	"sync"
)

type ReplaySpec struct {
	Module string `json:"module"` // directory of the module relative to the repository ("." or "client")
	PkgDir string `json:"pkgdir"` // package directory relative to the module
	File   string `json:"file"`   // harness file relative to /verif
	Run    string `json:"run"`    // test name
}

type Cex struct {
	Inputs     []interface{}
	Outcome    string
	Log        string
	Reproduced bool
}

var replayOnce sync.Map

func (e *Engine) tryCounterexample(o *Obligation, axioms []axiomTerm, repo, verif string, opt solveOpts) *Cex {
	rs := opt.replay
	if rs == nil {
		return nil
	}
	key := rs.File + "|" + rs.Run + "|" + opt.property
	if v, ok := replayOnce.Load(key); ok {
		return v.(*Cex)
	}
	c := runReplay(rs, repo, verif, o.Name, opt.property, opt.seed)
	for i := range opt.replayMore {
		if c.Reproduced {
			break
		}
		c2 := runReplay(&opt.replayMore[i], repo, verif, o.Name, opt.property, opt.seed)
		if c2.Reproduced {
			c = c2
		} else {
			c.Log += "\n" + c2.Log
		}
	}
	replayOnce.Store(key, c)
	return c
}

func runReplay(rs *ReplaySpec, repo, verif, obligation, property string, seed int) *Cex {
	tmp, err := os.MkdirTemp("/var/tmp", "verif-replay-")
	if err != nil {
		return &Cex{Outcome: "replay-error", Log: err.Error()}
	}
	defer os.RemoveAll(tmp)
	modDir := filepath.Join(repo, rs.Module)
	target := filepath.Join(modDir, rs.PkgDir, "zz_verif_replay_"+strings.ToLower(sanitize(rs.Run))+"_test.go")
	ov := map[string]map[string]string{"Replace": {target: filepath.Join(verif, rs.File)}}
	data, _ := json.Marshal(ov)
	ovPath := filepath.Join(tmp, "overlay.json")
	os.WriteFile(ovPath, data, 0o644)
	cmd := exec.Command("go", "test", "-overlay", ovPath, "-vet=off", "-count=1", "-timeout", "300s", "-run", "^"+rs.Run+"$", "-v", "./"+rs.PkgDir+"/")
	cmd.Dir = modDir
	cmd.Env = append(os.Environ(), "GOFLAGS=-mod=mod", "GOPROXY=off", "GOSUMDB=off", "GOTOOLCHAIN=local", "VERIF_OBLIGATION="+obligation, "VERIF_PROPERTY="+property, fmt.Sprintf("VERIF_SEED=%d", seed))
	out, err := cmd.CombinedOutput()
	c := &Cex{Outcome: "NOT-REPRODUCED"}
	text := string(out)
	for _, ln := range strings.Split(text, "\n") {
		ln = strings.TrimSpace(ln)
		if strings.HasPrefix(ln, "REPRODUCED ") {
			var v interface{}
			if json.Unmarshal([]byte(ln[len("REPRODUCED "):]), &v) == nil {
				c.Inputs = append(c.Inputs, v)
			} else {
				c.Inputs = append(c.Inputs, ln[len("REPRODUCED "):])
			}
			c.Reproduced = true
			c.Outcome = "REPRODUCED"
		}
	}
	if len(text) > 6000 {
		text = text[:3000] + "\n...\n" + text[len(text)-3000:]
	}
	c.Log = text
	if err != nil && !c.Reproduced {
		c.Outcome = fmt.Sprintf("NOT-REPRODUCED (harness exit: %v)", err)
	}
	return c
}
