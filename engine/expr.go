package main

import (
	"fmt"
	"go/ast"
	"go/constant"
	"go/token"
	"go/types"
	"strings"

	"golang.org/x/tools/go/packages"
)

// ---------------------------------------------------------------- lvalues

type lval interface {
	load(st *State) *Value
	store(st *State, v *Value)
	shape() *Shape
}

type varLV struct {
	fc  *FuncCtx
	obj types.Object
}

func (l *varLV) load(st *State) *Value {
	v, ok := l.fc.readVar(st, l.obj)
	if !ok {
		panic(unsupported("UNSUPPORTED read of undeclared variable " + l.obj.Name()))
	}
	return v
}
func (l *varLV) store(st *State, v *Value) { l.fc.writeVar(st, l.obj, v) }
func (l *varLV) shape() *Shape            { return l.fc.e.shapeOf(l.obj.Type()) }

// field of a struct held at a reference
type ptrFieldLV struct {
	fc   *FuncCtx
	ref  string
	ssh  *Shape
	f    *Field
	node ast.Node
}

func (l *ptrFieldLV) load(st *State) *Value { return l.fc.e.readFieldAt(st, l.ssh, l.f, l.ref) }
func (l *ptrFieldLV) store(st *State, v *Value) {
	l.fc.storeField(st, l.ssh, l.f, l.ref, v, l.node)
}

// storeField writes a field at a reference, checking the frame only for the
// heap keys whose contents actually change (an embedded struct is written
// field by field).
func (fc *FuncCtx) storeField(st *State, ssh *Shape, f *Field, ref string, v *Value, node ast.Node) {
	e := fc.e
	if f.Embedded && f.Sh.Kind == KStruct {
		o := 0
		for _, sf := range f.Sh.Fields {
			n := e.nLeaves(sf.Sh)
			fc.storeField(st, f.Sh, sf, ref, &Value{Sh: sf.Sh, L: v.L[o : o+n]}, node)
			o += n
		}
		return
	}
	old := e.readFieldAt(st, ssh, f, ref)
	same := true
	for i := range old.L {
		if old.L[i] != v.L[i] {
			same = false
		}
	}
	if same {
		return
	}
	fc.frameCheckKey(st, e.fieldKey(ssh, f.Name, f.Sh), ref, node)
	e.writeFieldAt(st, ssh, f, ref, v)
}
func (l *ptrFieldLV) shape() *Shape { return l.f.Sh }

type structFieldLV struct {
	fc   *FuncCtx
	base lval
	name string
	fsh  *Shape
}

func (l *structFieldLV) load(st *State) *Value {
	v, ok := l.fc.e.field(l.base.load(st), l.name)
	if !ok {
		panic(unsupported("UNSUPPORTED field " + l.name))
	}
	return v
}
func (l *structFieldLV) store(st *State, v *Value) {
	l.base.store(st, l.fc.e.withField(l.base.load(st), l.name, v))
}
func (l *structFieldLV) shape() *Shape { return l.fsh }

type indexLV struct {
	fc   *FuncCtx
	base lval
	idx  string
}

func (l *indexLV) load(st *State) *Value { return l.fc.e.sliceElem(l.base.load(st), l.idx) }
func (l *indexLV) store(st *State, v *Value) {
	l.base.store(st, l.fc.e.sliceStore(l.base.load(st), l.idx, v))
}
func (l *indexLV) shape() *Shape { return l.base.shape().Elem() }

// element of a slice that is not itself addressable as an lvalue chain (value only)
type rvalLV struct {
	v *Value
}

func (l *rvalLV) load(st *State) *Value { return l.v }
func (l *rvalLV) store(st *State, v *Value) {
	panic(unsupported("UNSUPPORTED store into a non-addressable value"))
}
func (l *rvalLV) shape() *Shape { return l.v.Sh }

type mapElemLV struct {
	fc   *FuncCtx
	m    *Value
	key  string
	node ast.Node
}

func (l *mapElemLV) load(st *State) *Value { return l.fc.e.mapGet(st, l.m, l.key) }
func (l *mapElemLV) store(st *State, v *Value) {
	l.fc.safety(st, "nilmap", l.node, not(eq(l.m.T(), "0")))
	l.fc.frameCheckMap(st, l.m, l.node)
	l.fc.e.mapSet(st, l.m, l.key, v)
}
func (l *mapElemLV) shape() *Shape { return l.m.Sh.Elem() }

type derefLV struct {
	fc   *FuncCtx
	p    *Value
	node ast.Node
}

func (l *derefLV) load(st *State) *Value { return l.fc.e.deref(st, l.p) }
func (l *derefLV) store(st *State, v *Value) {
	es := l.p.Sh.Elem()
	if es.Kind == KStruct {
		for _, f := range es.Fields {
			l.fc.frameCheck(st, es, f, l.p.T(), l.node)
		}
	} else {
		l.fc.frameCheckKey(st, l.fc.e.boxKey(es), l.p.T(), l.node)
	}
	l.fc.e.storeDeref(st, l.p, v)
}
func (l *derefLV) shape() *Shape { return l.p.Sh.Elem() }

func (fc *FuncCtx) lvalue(x ast.Expr, st *State) lval {
	e := fc.e
	switch n := ast.Unparen(x).(type) {
	case *ast.Ident:
		obj := fc.info.Uses[n]
		if obj == nil {
			obj = fc.info.Defs[n]
		}
		if v, ok := obj.(*types.Var); ok {
			if _, has := st.vars[v]; !has {
				if v.Parent() == fc.pkg.Types.Scope() || v.Pkg() != fc.pkg.Types {
					return &rvalLV{fc.globalVar(v)}
				}
			}
			return &varLV{fc, v}
		}
		fc.unsupp(x, "lvalue %s", n.Name)
	case *ast.SelectorExpr:
		sel := fc.info.Selections[n]
		if sel == nil {
			// package-qualified variable
			if obj, ok := fc.info.Uses[n.Sel].(*types.Var); ok {
				return &rvalLV{fc.globalVar(obj)}
			}
			fc.unsupp(x, "selector lvalue")
		}
		if sel.Kind() != types.FieldVal {
			fc.unsupp(x, "method value")
		}
		return fc.selectionLV(n, sel, st)
	case *ast.IndexExpr:
		bt := fc.info.TypeOf(n.X).Underlying()
		switch bt.(type) {
		case *types.Slice:
			base := fc.lvalueOrValue(n.X, st)
			idx := fc.eval(n.Index, st)
			sv := base.load(st)
			fc.safety(st, "bounds", n, and("(<= 0 "+idx.T()+")", "(< "+idx.T()+" "+sliceLen(sv)+")"))
			return &indexLV{fc, base, idx.T()}
		case *types.Map:
			m := fc.eval(n.X, st)
			k := fc.eval(n.Index, st)
			return &mapElemLV{fc, m, k.T(), n}
		}
		fc.unsupp(x, "index lvalue on %s", bt)
	case *ast.StarExpr:
		p := fc.eval(n.X, st)
		fc.safety(st, "nil", n, not(eq(p.T(), "0")))
		return &derefLV{fc, p, n}
	}
	_ = e
	fc.unsupp(x, "lvalue %T", x)
	return nil
}

// lvalueOrValue returns an lvalue if the expression is addressable, else a value holder.
func (fc *FuncCtx) lvalueOrValue(x ast.Expr, st *State) lval {
	switch n := ast.Unparen(x).(type) {
	case *ast.Ident, *ast.SelectorExpr, *ast.IndexExpr, *ast.StarExpr:
		if id, ok := n.(*ast.Ident); ok {
			if _, isVar := fc.info.Uses[id].(*types.Var); !isVar {
				return &rvalLV{fc.eval(x, st)}
			}
		}
		if s, ok := n.(*ast.SelectorExpr); ok {
			if sel := fc.info.Selections[s]; sel == nil || sel.Kind() != types.FieldVal {
				return &rvalLV{fc.eval(x, st)}
			}
		}
		if ix, ok := n.(*ast.IndexExpr); ok {
			if _, isSlice := fc.info.TypeOf(ix.X).Underlying().(*types.Slice); !isSlice {
				return &rvalLV{fc.eval(x, st)}
			}
		}
		return fc.lvalue(x, st)
	}
	return &rvalLV{fc.eval(x, st)}
}

// selectionLV walks a field selection path (with embedded fields and implicit dereferences).
func (fc *FuncCtx) selectionLV(n *ast.SelectorExpr, sel *types.Selection, st *State) lval {
	e := fc.e
	recvT := sel.Recv()
	var cur lval
	var curT types.Type = recvT
	path := sel.Index()
	// base
	if _, isPtr := recvT.Underlying().(*types.Pointer); isPtr {
		p := fc.eval(n.X, st)
		cur = &rvalLV{p}
	} else {
		cur = fc.lvalueOrValue(n.X, st)
	}
	for _, idx := range path {
		if pt, ok := curT.Underlying().(*types.Pointer); ok {
			p := cur.load(st)
			fc.safety(st, "nil", n, not(eq(p.T(), "0")))
			stT := pt.Elem()
			su := stT.Underlying().(*types.Struct)
			fv := su.Field(idx)
			ssh := e.shapeOf(stT)
			f := e.findField(ssh, fv.Name())
			if f == nil {
				fc.unsupp(n, "field %s of %s is not materialised", fv.Name(), stT)
			}
			cur = &ptrFieldLV{fc, p.T(), ssh, f, n}
			curT = fv.Type()
			continue
		}
		su, ok := curT.Underlying().(*types.Struct)
		if !ok {
			fc.unsupp(n, "selection through %s", curT)
		}
		fv := su.Field(idx)
		ssh := e.shapeOf(curT)
		f := e.findField(ssh, fv.Name())
		if f == nil {
			// a field of a struct that is modelled as one opaque value: an uninterpreted projection of that
			// value (read-only), provided the field itself is a single-leaf value
			fsh := e.shapeOf(fv.Type())
			if ssh.Kind == KOpaque && len(e.leafSorts(fsh)) == 1 {
				base := cur.load(st)
				fn := e.declFun(smtSym("fld."+typeKey(curT)+"."+fv.Name()), []string{e.leafSorts(ssh)[0]}, e.leafSorts(fsh)[0])
				cur = &rvalLV{scalar(fsh, app(fn, base.T()))}
				curT = fv.Type()
				continue
			}
			fc.unsupp(n, "field %s of %s is not materialised", fv.Name(), curT)
		}
		cur = &structFieldLV{fc, cur, fv.Name(), f.Sh}
		curT = fv.Type()
	}
	return cur
}

// ---------------------------------------------------------------- frame checks

func (fc *FuncCtx) frameCheck(st *State, ssh *Shape, f *Field, ref string, node ast.Node) {
	if f.Embedded && f.Sh.Kind == KStruct {
		for _, sf := range f.Sh.Fields {
			fc.frameCheck(st, f.Sh, sf, ref, node)
		}
		return
	}
	fc.frameCheckKey(st, fc.e.fieldKey(ssh, f.Name, f.Sh), ref, node)
}

func (fc *FuncCtx) frameCheckMap(st *State, m *Value, node ast.Node) {
	k, _ := fc.e.mapDomKey(m.Sh)
	fc.frameCheckKey(st, k, m.T(), node)
}

// frameCheckKey generates the obligation that a store to (key, ref) is
// permitted: the target is an object allocated by this invocation, or it is
// named in the modifies clause.
func (fc *FuncCtx) frameCheckKey(st *State, key string, ref string, node ast.Node) {
	if fc.contract == nil || fc.e.dry > 0 || fc.contract.Trusted != "" {
		return
	}
	goal := fc.framePermits(st, key, ref)
	if goal == "true" {
		return
	}
	anchor := key
	if node != nil {
		anchor = exprText(fc.e.fset, node) + "|" + key
	}
	pos := token.NoPos
	if node != nil {
		pos = node.Pos()
	}
	fc.oblige(st, "frame", anchor, pos, goal, nil, "store to "+key+" must be permitted by modifies or target a fresh object")
}

func (fc *FuncCtx) framePermits(st *State, key, ref string) string {
	alts := []string{"(>= " + ref + " " + fc.entry.alloc + ")", eq(ref, "0")}
	for _, m := range fc.modTargets(fc.contract, fc.entry, fc.entry, nil, fc.decl.Body.Lbrace+1) {
		if m.key != key && !(m.isMap && strings.HasPrefix(key, m.key)) {
			continue
		}
		if m.all {
			return "true"
		}
		if m.pred != nil {
			alts = append(alts, m.pred(ref))
			continue
		}
		alts = append(alts, eq(ref, m.ref))
	}
	return or(alts...)
}

type modTarget struct {
	key   string
	sh    *Shape
	ref   string
	all   bool
	isMap bool
	ghost string
	elems string // parameter name for elems(p)
	// pred, when set, makes this a "maps(m map[K]V | P(m))" target: every map object m of that type for
	// which P holds (evaluated in the pre-state) may be modified; all others keep their contents
	pred func(ref string) string
}

// modTargets evaluates the modifies clause of a contract.  For the function
// under verification names resolve to its entry state; for a callee they
// resolve to the argument bindings.
func (fc *FuncCtx) modTargets(c *Contract, st *State, old *State, names map[string]*Value, pos token.Pos) []modTarget {
	e := fc.e
	var out []modTarget
	if c == nil {
		return nil
	}
	for _, m := range c.Modifies {
		m = strings.TrimSpace(m)
		if _, isGhost := e.globals[m]; isGhost {
			out = append(out, modTarget{ghost: m})
			continue
		}
		switch {
		case m == "":
		case strings.HasPrefix(m, "ghost "):
			for _, g := range splitNames(m[6:]) {
				out = append(out, modTarget{ghost: g})
			}
		case strings.HasPrefix(m, "elems(") && strings.HasSuffix(m, ")"):
			out = append(out, modTarget{elems: strings.TrimSpace(m[6 : len(m)-1])})
		case strings.HasPrefix(m, "all(") && strings.HasSuffix(m, ")"):
			inner := strings.TrimSpace(m[4 : len(m)-1])
			env := &SpecEnv{e: e, st: st, cf: c.CF, pkg: e.pkgForCF(c.CF)}
			if env.pkg == nil {
				env.pkg = fc.pkg
			}
			k := strings.LastIndex(inner, ".")
			if k < 0 && !strings.HasPrefix(inner, "map[") {
				specFail("modifies all(Type.Field) expected: %q", m)
			}
			if strings.HasPrefix(inner, "map[") {
				// all(map[K]V): every map of that type
				gt := env.resolveGoTypeFull(inner)
				msh := e.shapeOf(gt)
				dk, dsh := e.mapDomKey(msh)
				out = append(out, modTarget{key: dk, sh: dsh, all: true})
				if e.nLeaves(msh.Elem()) > 0 {
					vk, vsh := e.mapValKey(msh)
					out = append(out, modTarget{key: vk, sh: vsh, all: true})
				}
				continue
			}
			ssh := e.shapeOf(env.resolveGoType(inner[:k]))
			out = append(out, fc.fieldTargets(ssh, inner[k+1:], "", true)...)
		case strings.HasPrefix(m, "maps(") && strings.HasSuffix(m, ")"):
			// maps(m map[K]V | P(m))
			inner := m[5 : len(m)-1]
			bar := strings.Index(inner, "|")
			hd := strings.Fields(strings.TrimSpace(inner[:max(bar, 0)]))
			if bar < 0 || len(hd) != 2 {
				specFail("modifies maps(m map[K]V | P(m)) expected: %q", m)
			}
			ex, err := parseSpec(inner[bar+1:])
			if err != nil {
				specFail("%v", err)
			}
			tenv := &SpecEnv{e: e, st: st, cf: c.CF, pkg: e.pkgForCF(c.CF)}
			if tenv.pkg == nil {
				tenv.pkg = fc.pkg
			}
			msh := e.shapeOf(tenv.resolveGoTypeFull(hd[1]))
			if msh.Kind != KMapRef {
				specFail("modifies maps(...): %s is not a map type", hd[1])
			}
			bound := hd[0]
			pred := func(ref string) string {
				env := fc.calleeOrSelfEnv(c, st, old, names, pos)
				nm := map[string]*Value{}
				for k, v := range env.names {
					nm[k] = v
				}
				nm[bound] = scalar(msh, ref)
				env.names = nm
				return env.evalBool(ex)
			}
			dk, dsh := e.mapDomKey(msh)
			out = append(out, modTarget{key: dk, sh: dsh, pred: pred})
			if e.nLeaves(msh.Elem()) > 0 {
				vk, vsh := e.mapValKey(msh)
				out = append(out, modTarget{key: vk, sh: vsh, pred: pred})
			}
		case strings.HasPrefix(m, "map(") && strings.HasSuffix(m, ")"):
			ex, err := parseSpec(m[4 : len(m)-1])
			if err != nil {
				specFail("%v", err)
			}
			env := fc.calleeOrSelfEnv(c, st, old, names, pos)
			v := env.eval(ex)
			if v.Sh.Kind != KMapRef {
				specFail("modifies map(x): x is %s", v.Sh)
			}
			dk, dsh := e.mapDomKey(v.Sh)
			out = append(out, modTarget{key: dk, sh: dsh, ref: v.T(), isMap: false})
			if e.nLeaves(v.Sh.Elem()) > 0 {
				vk, vsh := e.mapValKey(v.Sh)
				out = append(out, modTarget{key: vk, sh: vsh, ref: v.T()})
			}
		case strings.HasPrefix(m, "*"):
			ex, err := parseSpec(m[1:])
			if err != nil {
				specFail("%v", err)
			}
			env := fc.calleeOrSelfEnv(c, st, old, names, pos)
			v := env.eval(ex)
			if v.Sh.Kind != KRef {
				specFail("modifies *x: x is %s", v.Sh)
			}
			es := v.Sh.Elem()
			if es.Kind == KStruct {
				for _, f := range es.Fields {
					out = append(out, fc.fieldTargets(es, f.Name, v.T(), false)...)
				}
			} else {
				out = append(out, modTarget{key: e.boxKey(es), sh: es, ref: v.T()})
			}
		default:
			k := strings.LastIndex(m, ".")
			if k < 0 {
				specFail("modifies target %q", m)
			}
			ex, err := parseSpec(m[:k])
			if err != nil {
				specFail("%v", err)
			}
			env := fc.calleeOrSelfEnv(c, st, old, names, pos)
			v := env.eval(ex)
			if v.Sh.Kind != KRef || v.Sh.Elem() == nil || v.Sh.Elem().Kind != KStruct {
				specFail("modifies %s: %s is not a pointer to struct", m, m[:k])
			}
			out = append(out, fc.fieldTargets(v.Sh.Elem(), m[k+1:], v.T(), false)...)
		}
	}
	return out
}

func (env *SpecEnv) resolveGoTypeFull(s string) types.Type {
	s = strings.TrimSpace(s)
	if strings.HasPrefix(s, "map[") {
		d := 0
		for i := 3; i < len(s); i++ {
			if s[i] == '[' {
				d++
			} else if s[i] == ']' {
				d--
				if d == 0 {
					return types.NewMap(env.resolveGoTypeFull(s[4:i]), env.resolveGoTypeFull(s[i+1:]))
				}
			}
		}
	}
	return env.resolveGoType(s)
}

func (fc *FuncCtx) calleeOrSelfEnv(c *Contract, st, old *State, names map[string]*Value, pos token.Pos) *SpecEnv {
	if names != nil {
		return &SpecEnv{e: fc.e, st: st, old: old, names: names, cf: c.CF, pkg: fc.e.pkgForCFOr(c.CF, fc.pkg)}
	}
	return fc.specEnv(st, old, pos, nil)
}

func (e *Engine) pkgForCFOr(cf *ContractFile, def *packages.Package) *packages.Package {
	if p := e.pkgForCF(cf); p != nil {
		return p
	}
	return def
}

// fieldTargets resolves a field name (possibly promoted through an embedded struct) to heap keys.
func (fc *FuncCtx) fieldTargets(ssh *Shape, fname string, ref string, all bool) []modTarget {
	t := fc.fieldTargets1(ssh, fname, ref, all)
	if t == nil {
		specFail("modifies: no field %s in %s", fname, ssh)
	}
	return t
}

func (fc *FuncCtx) fieldTargets1(ssh *Shape, fname string, ref string, all bool) []modTarget {
	e := fc.e
	if f := e.findField(ssh, fname); f != nil {
		if f.Embedded && f.Sh.Kind == KStruct {
			var out []modTarget
			for _, sf := range f.Sh.Fields {
				out = append(out, fc.fieldTargets1(f.Sh, sf.Name, ref, all)...)
			}
			return out
		}
		return []modTarget{{key: e.fieldKey(ssh, f.Name, f.Sh), sh: f.Sh, ref: ref, all: all}}
	}
	for _, f := range ssh.Fields {
		if f.Embedded && f.Sh.Kind == KStruct {
			if t := fc.fieldTargets1(f.Sh, fname, ref, all); t != nil {
				return t
			}
		}
	}
	return nil
}

// ---------------------------------------------------------------- expressions

func (fc *FuncCtx) constValue(cv constant.Value, t types.Type) *Value {
	e := fc.e
	sh := e.shapeOf(t)
	switch cv.Kind() {
	case constant.Bool:
		if constant.BoolVal(cv) {
			return scalar(sh, "true")
		}
		return scalar(sh, "false")
	case constant.String:
		if sh.Kind != KStr {
			sh = shStr
		}
		return scalar(sh, e.strLit(constant.StringVal(cv)))
	case constant.Int:
		if sh.Kind != KInt {
			sh = shInt
		}
		return scalar(sh, intLit(cv.ExactString()))
	}
	panic(unsupported("UNSUPPORTED constant " + cv.String()))
}

func (fc *FuncCtx) eval(x ast.Expr, st *State) *Value {
	vs := fc.evalMulti(x, st)
	if len(vs) != 1 {
		fc.unsupp(x, "single value expected, got %d", len(vs))
	}
	return vs[0]
}

func (fc *FuncCtx) evalCond(x ast.Expr, st *State) string {
	v := fc.eval(x, st)
	if v.Sh.Kind != KBool {
		fc.unsupp(x, "boolean expected")
	}
	return v.T()
}

func (fc *FuncCtx) evalMulti(x ast.Expr, st *State) []*Value {
	e := fc.e
	fc.curState = st
	if tv, ok := fc.info.Types[x]; ok && tv.Value != nil {
		return []*Value{fc.constValue(tv.Value, tv.Type)}
	}
	switch n := x.(type) {
	case *ast.ParenExpr:
		return fc.evalMulti(n.X, st)
	case *ast.Ident:
		if n.Name == "nil" {
			if tv, ok := fc.info.Types[x]; ok && tv.IsNil() {
				return []*Value{nilValue}
			}
		}
		obj := fc.info.Uses[n]
		switch o := obj.(type) {
		case *types.Var:
			if v, ok := fc.readVar(st, o); ok {
				return []*Value{v}
			}
			if o.Parent() == fc.pkg.Types.Scope() || o.Pkg() != fc.pkg.Types {
				return []*Value{fc.globalVar(o)}
			}
			fc.unsupp(x, "read of undeclared variable %s", n.Name)
		case *types.Nil:
			return []*Value{nilValue}
		case *types.Func:
			return []*Value{scalar(shFunc, e.declConst(smtSym("fn."+o.FullName()), "Int"))}
		}
		fc.unsupp(x, "identifier %s", n.Name)
	case *ast.BasicLit:
		fc.unsupp(x, "non-constant literal")
	case *ast.SelectorExpr:
		sel := fc.info.Selections[n]
		if sel == nil {
			switch o := fc.info.Uses[n.Sel].(type) {
			case *types.Var:
				return []*Value{fc.globalVar(o)}
			case *types.Func:
				return []*Value{scalar(shFunc, e.declConst(smtSym("fn."+o.FullName()), "Int"))}
			}
			fc.unsupp(x, "qualified identifier")
		}
		if sel.Kind() != types.FieldVal {
			fc.unsupp(x, "method value")
		}
		lv := fc.selectionLV(n, sel, st)
		v := lv.load(st)
		fc.readFacts(st, v)
		return []*Value{v}
	case *ast.StarExpr:
		p := fc.eval(n.X, st)
		fc.safety(st, "nil", n, not(eq(p.T(), "0")))
		v := e.deref(st, p)
		fc.readFacts(st, v)
		return []*Value{v}
	case *ast.UnaryExpr:
		return []*Value{fc.evalUnary(n, st)}
	case *ast.BinaryExpr:
		return []*Value{fc.evalBinary(n, st)}
	case *ast.IndexExpr:
		bt := fc.info.TypeOf(n.X).Underlying()
		switch bt.(type) {
		case *types.Slice:
			s := fc.eval(n.X, st)
			i := fc.eval(n.Index, st)
			fc.safety(st, "bounds", n, and("(<= 0 "+i.T()+")", "(< "+i.T()+" "+sliceLen(s)+")"))
			v := e.sliceElem(s, i.T())
			fc.readFacts(st, v)
			return []*Value{v}
		case *types.Map:
			m := fc.eval(n.X, st)
			k := fc.eval(n.Index, st)
			v := fc.nameValue(st, e.mapGet(st, m, k.T()), "mv")
			fc.readFacts(st, v)
			return []*Value{v}
		case *types.Basic:
			fc.unsupp(x, "string indexing")
		}
		fc.unsupp(x, "index on %s", bt)
	case *ast.SliceExpr:
		return []*Value{fc.evalSliceExpr(n, st)}
	case *ast.CallExpr:
		return fc.evalCall(n, st)
	case *ast.CompositeLit:
		return []*Value{fc.evalComposite(n, st)}
	case *ast.TypeAssertExpr:
		v := fc.eval(n.X, st)
		t := fc.info.TypeOf(n.Type)
		ok := fc.typeIs(v, t)
		fc.safety(st, "typeassert", n, ok)
		return []*Value{fc.fromIface(v, t)}
	case *ast.FuncLit:
		// a function literal used as a value: opaque (its body is not executed here)
		fc.e.note("function literal at " + fc.e.fset.Position(x.Pos()).String() + " is an opaque function value in " + fc.name + " (its body is not verified at this point)")
		return []*Value{scalar(shFunc, fc.e.fresh("closure", "Int"))}
	}
	fc.unsupp(x, "expression %T", x)
	return nil
}

// readFacts records the type invariants of values read from memory.
func (fc *FuncCtx) readFacts(st *State, v *Value) {
	if v == nilValue {
		return
	}
	for _, f := range fc.e.typeFacts(v) {
		st.assume(f)
	}
	// references held in memory point to allocated objects
	fc.allocFacts(st, v)
}

func (fc *FuncCtx) typeIs(v *Value, t types.Type) string {
	switch v.Sh.Kind {
	case KIface:
		if _, isIface := t.Underlying().(*types.Interface); isIface {
			// interface-to-interface assertion: holds when non-nil (method sets are not modelled)
			return not(eq(v.L[0], "0"))
		}
		return eq(v.L[0], fc.e.typeTag(t))
	case KErr:
		return not(eq(v.T(), "0"))
	}
	panic(unsupported("UNSUPPORTED type assertion on " + v.Sh.String()))
}

func (fc *FuncCtx) fromIface(v *Value, t types.Type) *Value {
	e := fc.e
	sh := e.shapeOf(t)
	switch sh.Kind {
	case KRef, KMapRef, KInt, KOpaque, KFunc:
		return scalar(sh, v.L[len(v.L)-1])
	case KIface:
		return &Value{Sh: sh, L: v.L}
	case KErr:
		return scalar(sh, v.L[len(v.L)-1])
	case KStr:
		e.ensureBoxStrAxiom()
		return scalar(sh, app("unbox.str", v.L[1]))
	case KStruct:
		// boxed struct: contents are read from the box heap
		return e.readStructAt(fc.curState, sh, v.L[1])
	}
	panic(unsupported("UNSUPPORTED type assertion to " + sh.String()))
}


func (fc *FuncCtx) evalUnary(n *ast.UnaryExpr, st *State) *Value {
	e := fc.e
	switch n.Op {
	case token.NOT:
		return scalar(shBool, not(fc.evalCond(n.X, st)))
	case token.SUB:
		v := fc.eval(n.X, st)
		r := scalar(v.Sh, "(- "+v.T()+")")
		return fc.overflowCheck(st, n, r)
	case token.ADD:
		return fc.eval(n.X, st)
	case token.AND:
		inner := ast.Unparen(n.X)
		switch t := inner.(type) {
		case *ast.CompositeLit:
			v := fc.evalComposite(t, st)
			r := e.allocRef(st, "new")
			p := scalar(e.shapeOf(fc.info.TypeOf(n)), r)
			e.storeDeref(st, p, v)
			return p
		case *ast.Ident:
			obj := fc.info.Uses[t]
			if fc.boxed[obj] {
				if p, ok := st.vars[obj]; ok {
					return scalar(e.shapeOf(fc.info.TypeOf(n)), p.T())
				}
			}
			fc.unsupp(n, "address of %s", t.Name)
		case *ast.SelectorExpr:
			// interior pointer: supported only as an opaque identity derived from the host
			sel := fc.info.Selections[t]
			if sel != nil && sel.Kind() == types.FieldVal {
				return fc.interiorPtr(n, t, sel, st)
			}
		case *ast.IndexExpr:
			// pointer to slice element: copy semantics are not modelled
			fc.unsupp(n, "address of slice element")
		}
		fc.unsupp(n, "address-of %T", inner)
	case token.ARROW:
		ch := fc.eval(n.X, st)
		return fc.chanOp("recv", n, st, ch, fc.info.TypeOf(n.X), nil)[0]
	}
	fc.unsupp(n, "unary %s", n.Op)
	return nil
}

// interiorPtr models &x.f.g: a fresh reference whose target struct is a copy
// of the selected value at the time the address is taken.  This is sound only
// when nobody writes through the pointer and the host afterwards (checked by
// the caller-side frame: callees receiving it must not modify it), and is
// recorded as a modelling note.
func (fc *FuncCtx) interiorPtr(n *ast.UnaryExpr, t *ast.SelectorExpr, sel *types.Selection, st *State) *Value {
	e := fc.e
	lv := fc.selectionLV(t, sel, st)
	v := lv.load(st)
	r := e.allocRef(st, "interior")
	p := scalar(e.shapeOf(fc.info.TypeOf(n)), r)
	e.storeDeref(st, p, v)
	e.note("interior pointer " + exprText(e.fset, n) + " in " + fc.name + " modelled as pointer to a snapshot copy (read-only use)")
	return p
}

// overflowCheck returns the value of a fixed-width arithmetic result.  Normally the result must be in range
// (an obligation), after which the mathematical value is the Go value.  In a function whose contract says
// `wraps`, overflow is allowed (Go wraps around silently, it does not panic): the result is an unknown value of
// the type's range that equals the mathematical value whenever that is in range.
func (fc *FuncCtx) overflowCheck(st *State, n ast.Node, v *Value) *Value {
	if v.Sh.Kind == KInt && v.Sh.Bits > 0 {
		lo, hi := intRange(v.Sh)
		inRange := and("(<= "+lo+" "+v.T()+")", "(<= "+v.T()+" "+hi+")")
		if fc.contract != nil && fc.contract.Wraps {
			w := fc.e.fresh("wrap", "Int")
			st.assume(and("(<= "+lo+" "+w+")", "(<= "+w+" "+hi+")"))
			st.assume(imp(inRange, eq(w, v.T())))
			return scalar(v.Sh, w)
		}
		fc.safety(st, "overflow", n, inRange)
	}
	return v
}

func (fc *FuncCtx) evalBinary(n *ast.BinaryExpr, st *State) *Value {
	switch n.Op {
	case token.LAND, token.LOR:
		l := fc.evalCond(n.X, st)
		// the right operand is evaluated only under the guard: fork, evaluate, join
		guard := l
		if n.Op == token.LOR {
			guard = not(l)
		}
		rhsSt := st.clone()
		rhsSt.pc = append(rhsSt.pc, guard)
		r := fc.evalCond(n.Y, rhsSt)
		skipSt := st.clone()
		skipSt.pc = append(skipSt.pc, not(guard))
		merged := fc.e.merge([]*State{rhsSt, skipSt})
		*st = *merged
		if n.Op == token.LAND {
			return scalar(shBool, and(l, r))
		}
		return scalar(shBool, or(l, r))
	}
	l := fc.eval(n.X, st)
	r := fc.eval(n.Y, st)
	resSh := fc.e.shapeOf(fc.info.TypeOf(n))
	return fc.binaryOp(st, n, n.Op, l, r, resSh)
}

func (fc *FuncCtx) binaryOp(st *State, n ast.Node, op token.Token, l, r *Value, resSh *Shape) *Value {
	e := fc.e
	switch op {
	case token.EQL, token.NEQ:
		t := e.valuesEqualGo(l, r)
		if op == token.NEQ {
			t = not(t)
		}
		return scalar(shBool, t)
	case token.LSS, token.LEQ, token.GTR, token.GEQ:
		if l.Sh.Kind == KStr {
			lt := e.declFun("slt", []string{"Str", "Str"}, "Bool")
			switch op {
			case token.LSS:
				return scalar(shBool, app(lt, l.T(), r.T()))
			case token.GTR:
				return scalar(shBool, app(lt, r.T(), l.T()))
			case token.LEQ:
				return scalar(shBool, not(app(lt, r.T(), l.T())))
			default:
				return scalar(shBool, not(app(lt, l.T(), r.T())))
			}
		}
		return scalar(shBool, "("+op.String()+" "+l.T()+" "+r.T()+")")
	case token.ADD:
		if l.Sh.Kind == KStr {
			f := e.declFun("scat", []string{"Str", "Str"}, "Str")
			return scalar(resSh, app(f, l.T(), r.T()))
		}
		v := scalar(resSh, "(+ "+l.T()+" "+r.T()+")")
		return fc.overflowCheck(st, n, v)
	case token.SUB:
		v := scalar(resSh, "(- "+l.T()+" "+r.T()+")")
		return fc.overflowCheck(st, n, v)
	case token.MUL:
		v := scalar(resSh, "(* "+l.T()+" "+r.T()+")")
		return fc.overflowCheck(st, n, v)
	case token.QUO:
		fc.safety(st, "divzero", n, not(eq(r.T(), "0")))
		// Go truncates toward zero
		q := "(ite (>= " + l.T() + " 0) (div " + l.T() + " " + r.T() + ") (- (div (- " + l.T() + ") " + r.T() + ")))"
		return scalar(resSh, q)
	case token.REM:
		fc.safety(st, "divzero", n, not(eq(r.T(), "0")))
		m := "(ite (>= " + l.T() + " 0) (mod " + l.T() + " " + r.T() + ") (- (mod (- " + l.T() + ") " + r.T() + ")))"
		return scalar(resSh, m)
	}
	fc.unsupp(n, "binary operator %s", op)
	return nil
}

// valuesEqualGo is Go's == on values (pointers, strings, ints, interfaces, nil).
func (e *Engine) valuesEqualGo(l, r *Value) string {
	if l != nilValue && r != nilValue && l.Sh.Kind == KIface && r.Sh.Kind != KIface {
		// comparing interface with concrete value
		if r.Sh.Kind == KErr {
			return eq(l.L[1], r.T())
		}
		return and(eq(l.L[0], e.typeTag(r.Sh.Go)), eq(l.L[1], r.L[0]))
	}
	if l != nilValue && r != nilValue && r.Sh.Kind == KIface && l.Sh.Kind != KIface {
		return e.valuesEqualGo(r, l)
	}
	return e.valuesEqual(l, r)
}

func (fc *FuncCtx) evalSliceExpr(n *ast.SliceExpr, st *State) *Value {
	e := fc.e
	bt := fc.info.TypeOf(n.X).Underlying()
	if b, ok := bt.(*types.Basic); ok && b.Info()&types.IsString != 0 {
		s := fc.eval(n.X, st)
		lo, hi := "0", app(e.declFun("slen", []string{"Str"}, "Int"), s.T())
		slen := hi
		if n.Low != nil {
			lo = fc.eval(n.Low, st).T()
		}
		if n.High != nil {
			hi = fc.eval(n.High, st).T()
		}
		fc.safety(st, "bounds", n, and("(<= 0 "+lo+")", "(<= "+lo+" "+hi+")", "(<= "+hi+" "+slen+")"))
		f := e.declFun("ssub", []string{"Str", "Int", "Int"}, "Str")
		return scalar(s.Sh, app(f, s.T(), lo, hi))
	}
	if _, ok := bt.(*types.Slice); !ok {
		fc.unsupp(n, "slice expression on %s", bt)
	}
	s := fc.eval(n.X, st)
	if n.Low != nil {
		if tv, ok := fc.info.Types[n.Low]; !ok || tv.Value == nil || tv.Value.ExactString() != "0" {
			fc.unsupp(n, "slice expression with non-zero low bound")
		}
	}
	if n.Slice3 {
		fc.unsupp(n, "3-index slice")
	}
	hi := sliceLen(s)
	if n.High != nil {
		hi = fc.eval(n.High, st).T()
	}
	// capacity is not modelled: require hi <= len
	fc.safety(st, "bounds", n, and("(<= 0 "+hi+")", "(<= "+hi+" "+sliceLen(s)+")"))
	nl := append([]string(nil), s.L...)
	nl[0] = hi
	return &Value{Sh: s.Sh, L: nl}
}

func (fc *FuncCtx) evalComposite(n *ast.CompositeLit, st *State) *Value {
	e := fc.e
	t := fc.info.TypeOf(n)
	sh := e.shapeOf(t)
	switch u := t.Underlying().(type) {
	case *types.Struct:
		v := e.zeroValue(sh)
		if sh.Kind != KStruct {
			// no materialised fields: evaluate the elements for their effects only
			for _, el := range n.Elts {
				if kv, ok := el.(*ast.KeyValueExpr); ok {
					fc.eval(kv.Value, st)
				} else {
					fc.eval(el, st)
				}
			}
			if sh.Kind == KOpaque {
				return scalar(sh, e.fresh("lit", "Int"))
			}
			return v
		}
		for i, el := range n.Elts {
			var fname string
			var val ast.Expr
			if kv, ok := el.(*ast.KeyValueExpr); ok {
				fname = kv.Key.(*ast.Ident).Name
				val = kv.Value
			} else {
				fname = u.Field(i).Name()
				val = el
			}
			f := e.findField(sh, fname)
			ev := fc.evalElt(val, st, fieldType(u, fname))
			if f == nil {
				continue
			}
			v = e.withField(v, fname, fc.convertTo(ev, f.Sh))
		}
		return v
	case *types.Slice:
		es := sh.Elem()
		v := e.zeroValue(sh)
		cnt := 0
		for _, el := range n.Elts {
			if _, ok := el.(*ast.KeyValueExpr); ok {
				fc.unsupp(n, "keyed slice literal")
			}
			ev := fc.convertTo(fc.evalElt(el, st, u.Elem()), es)
			v = e.sliceStore(v, fmt.Sprint(cnt), ev)
			cnt++
		}
		v.L[0] = fmt.Sprint(cnt)
		return v
	case *types.Map:
		m := e.newMap(st, sh)
		for _, el := range n.Elts {
			kv := el.(*ast.KeyValueExpr)
			k := fc.eval(kv.Key, st)
			val := fc.convertTo(fc.evalElt(kv.Value, st, u.Elem()), sh.Elem())
			e.mapSet(st, m, k.T(), val)
		}
		return m
	}
	fc.unsupp(n, "composite literal of %s", t)
	return nil
}

func fieldType(u *types.Struct, name string) types.Type {
	for i := 0; i < u.NumFields(); i++ {
		if u.Field(i).Name() == name {
			return u.Field(i).Type()
		}
	}
	return nil
}

// evalElt evaluates a composite literal element, which may itself be an
// untyped composite literal ({...} with elided type).
func (fc *FuncCtx) evalElt(x ast.Expr, st *State, t types.Type) *Value {
	if cl, ok := x.(*ast.CompositeLit); ok && cl.Type == nil {
		// elided type: types.Info records the type for the literal
		if fc.info.TypeOf(cl) != nil {
			if pt, isPtr := fc.info.TypeOf(cl).Underlying().(*types.Pointer); isPtr {
				_ = pt
			}
		}
	}
	return fc.eval(x, st)
}

// nameValue replaces conditional leaf terms by fresh constants defined equal to
// them, so that later terms built from the value stay usable in patterns.
func (fc *FuncCtx) nameValue(st *State, v *Value, hint string) *Value {
	e := fc.e
	out := &Value{Sh: v.Sh, L: append([]string(nil), v.L...)}
	sorts := e.leafSorts(v.Sh)
	for i, t := range out.L {
		if strings.HasPrefix(t, "(ite ") {
			c := e.fresh(hint, sorts[i])
			st.assume(eq(c, t))
			out.L[i] = c
		}
	}
	return out
}
