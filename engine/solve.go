package main

import (
	"bytes"
	"context"
	"crypto/sha256"
	"encoding/hex"
	"encoding/json"
	"fmt"
	"os"
	"os/exec"
	"path/filepath"
	"sort"
	"strings"
	"sync"
	"time"
)

type solverDef struct {
	name string
	cmd  func(file string, seconds int, seed int) []string
}

var solvers = []solverDef{
	{"z3-4.8.12", func(f string, s int, seed int) []string {
		return []string{"/usr/bin/z3", "-smt2", fmt.Sprintf("-T:%d", s), fmt.Sprintf("smt.random_seed=%d", seed), f}
	}},
	{"z3-5.1.0", func(f string, s int, seed int) []string {
		return []string{"z3-new", "-smt2", fmt.Sprintf("-T:%d", s), fmt.Sprintf("smt.random_seed=%d", seed), f}
	}},
	{"cvc5-1.0", func(f string, s int, seed int) []string {
		return []string{"cvc5", "-q", "--lang=smt2", fmt.Sprintf("--tlimit=%d", s*1000), fmt.Sprintf("--seed=%d", seed), f}
	}},
}

// symbolsIn collects the SMT symbols occurring in a text.
func symbolsIn(text string, into map[string]bool) {
	i := 0
	for i < len(text) {
		c := text[i]
		switch {
		case c == '|':
			j := strings.IndexByte(text[i+1:], '|')
			if j < 0 {
				return
			}
			into[text[i:i+j+2]] = true
			i += j + 2
		case c == '(' || c == ')' || c == ' ' || c == '\n' || c == '\t':
			i++
		default:
			j := i
			for j < len(text) && !strings.ContainsRune("() \n\t|", rune(text[j])) {
				j++
			}
			into[text[i:j]] = true
			i = j
		}
	}
}

// buildQuery renders one obligation as an SMT-LIB2 script.
func (e *Engine) buildQuery(o *Obligation, axioms []axiomTerm, models bool) string {
	return e.buildQuerySliced(o, axioms, models, 0)
}

// sliceFacts keeps the facts within `depth` symbol-sharing steps of the goal and
// path condition (depth 0 = all facts).  Dropping assumptions is always sound.
func sliceFacts(o *Obligation, depth int) []string {
	if depth < 0 {
		return rankedFacts(o, -depth)
	}
	if depth == 0 {
		return o.Facts
	}
	// every quantifier-free fact is kept (cheap for the solvers); a quantified fact is kept
	// only if it is within `depth` symbol-sharing steps of the goal
	syms := map[string]bool{}
	symbolsIn(o.Goal, syms)
	factSyms := make([]map[string]bool, len(o.Facts))
	quantified := make([]bool, len(o.Facts))
	for i, f := range o.Facts {
		quantified[i] = strings.Contains(f, "(forall ") || strings.Contains(f, "(exists ")
		if quantified[i] {
			m := map[string]bool{}
			symbolsIn(f, m)
			factSyms[i] = m
		}
	}
	included := make([]bool, len(o.Facts))
	for d := 0; d < depth; d++ {
		var add []int
		for i := range o.Facts {
			if included[i] || !quantified[i] {
				continue
			}
			for k := range factSyms[i] {
				if syms[k] && !isBuiltinSym(k) && !strings.Contains(k, "!b") {
					add = append(add, i)
					break
				}
			}
		}
		if len(add) == 0 {
			break
		}
		for _, i := range add {
			included[i] = true
			for k := range factSyms[i] {
				syms[k] = true
			}
		}
	}
	var out []string
	for i, f := range o.Facts {
		if included[i] || !quantified[i] {
			out = append(out, f)
		}
	}
	return out
}

// rankedFacts keeps every quantifier-free fact and the n quantified facts that share the rarest symbols
// with the goal (score: sum over shared symbols of 1/(number of quantified facts mentioning the symbol)).
// Dropping assumptions is always sound; a proof from a subset is a proof.
func rankedFacts(o *Obligation, n int) []string {
	goalSyms := map[string]bool{}
	symbolsIn(o.Goal, goalSyms)
	type qf struct {
		idx   int
		syms  map[string]bool
		score float64
	}
	var qs []*qf
	freq := map[string]int{}
	for i, f := range o.Facts {
		if strings.Contains(f, "(forall ") || strings.Contains(f, "(exists ") {
			m := map[string]bool{}
			symbolsIn(f, m)
			qs = append(qs, &qf{idx: i, syms: m})
			for k := range m {
				freq[k]++
			}
		}
	}
	for _, q := range qs {
		for k := range q.syms {
			if goalSyms[k] && !isBuiltinSym(k) && !strings.Contains(k, "!b") {
				q.score += 1.0 / float64(freq[k])
			}
		}
	}
	sort.SliceStable(qs, func(a, b int) bool { return qs[a].score > qs[b].score })
	keep := map[int]bool{}
	for i, q := range qs {
		if i < n && q.score > 0 {
			keep[q.idx] = true
		}
	}
	var out []string
	for i, f := range o.Facts {
		quant := strings.Contains(f, "(forall ") || strings.Contains(f, "(exists ")
		if !quant || keep[i] {
			out = append(out, f)
		}
	}
	return out
}

func isBuiltinSym(k string) bool {
	switch k {
	case "and", "or", "not", "=>", "=", "ite", "select", "store", "forall", "exists", "!", ":pattern", "Int", "Bool", "Str", "Array",
		"<", "<=", ">", ">=", "+", "-", "*", "div", "mod", "true", "false", "as", "const", "distinct", "0", "1":
		return true
	}
	if len(k) > 0 && (k[0] >= '0' && k[0] <= '9') {
		return true
	}
	return false
}

func (e *Engine) buildQuerySliced(o *Obligation, axioms []axiomTerm, models bool, depth int) string {
	var body bytes.Buffer
	for _, f := range sliceFacts(o, depth) {
		body.WriteString("(assert " + f + ")\n")
	}
	for _, p := range o.PC {
		body.WriteString("(assert " + p + ")\n")
	}
	body.WriteString("(assert (not " + o.Goal + "))\n")
	syms := map[string]bool{}
	symbolsIn(body.String(), syms)
	// entry-heap well-formedness facts of this function, for the arrays that occur
	for _, f := range e.funcFacts[o.Func] {
		if k := strings.Index(f, "|"); k > 0 && syms[f[:k]] {
			body.WriteString("(assert " + f[k+1:] + ")\n")
			symbolsIn(f[k+1:], syms)
		}
	}
	// relevant axioms: share an uninterpreted function with the query (fixpoint)
	var axText bytes.Buffer
	included := make([]bool, len(axioms))
	for changed := true; changed; {
		changed = false
		for i, ax := range axioms {
			if included[i] {
				continue
			}
			as := map[string]bool{}
			symbolsIn(ax.term, as)
			rel := false
			hasUF := false
			for s := range as {
				if e.uf[s] {
					hasUF = true
					if syms[s] {
						rel = true
					}
				}
			}
			if rel || !hasUF {
				included[i] = true
				changed = true
				axText.WriteString("; axiom " + ax.name + "\n(assert " + ax.term + ")\n")
				for s := range as {
					syms[s] = true
				}
			}
		}
	}
	var out bytes.Buffer
	if models {
		out.WriteString("(set-option :produce-models true)\n")
	}
	out.WriteString("(set-logic ALL)\n(declare-sort Str 0)\n")
	for _, name := range e.declOrder {
		if syms[name] {
			out.WriteString(e.decls[name] + "\n")
		}
	}
	var lits []string
	for _, s := range e.strOrder {
		if syms[e.strLits[s]] {
			lits = append(lits, e.strLits[s])
		}
	}
	if len(lits) > 1 {
		out.WriteString("(assert (distinct " + strings.Join(lits, " ") + "))\n")
	}
	out.Write(axText.Bytes())
	out.Write(body.Bytes())
	out.WriteString("(check-sat)\n")
	if models {
		out.WriteString("(get-model)\n")
	}
	return out.String()
}

type solveOpts struct {
	timeout  int
	seed     int
	replayMore []ReplaySpec
	portfolio bool // also run further seeds (used for the last, long attempt)
	outDir   string
	cacheDir string
	useCache bool
	all      bool // wait for every solver (disagreement detection)
	workers  int
	replay   *ReplaySpec
	property string
	noSlice  bool
}

type cacheEntry struct {
	Result  string  `json:"result"`
	Solver  string  `json:"solver"`
	Seconds float64 `json:"seconds"`
}

func hashText(s string) string {
	h := sha256.Sum256([]byte(s))
	return hex.EncodeToString(h[:])
}

func (e *Engine) solveAll(obls []*Obligation, axiomsFor func(o *Obligation) []axiomTerm, opt solveOpts) {
	os.MkdirAll(opt.outDir, 0o755)
	if opt.useCache {
		os.MkdirAll(opt.cacheDir, 0o755)
	}
	sem := make(chan struct{}, opt.workers)
	var wg sync.WaitGroup
	for idx, o := range obls {
		if o.Goal == "true" {
			o.Result, o.Solver = "unsat", "syntactic"
			continue
		}
		wg.Add(1)
		go func(idx int, o *Obligation) {
			defer wg.Done()
			axs := axiomsFor(o)
			q := e.buildQuery(o, axs, false)
			o.SMTHash = hashText(q)
			if opt.useCache {
				if data, err := os.ReadFile(filepath.Join(opt.cacheDir, o.SMTHash+".json")); err == nil {
					var ce cacheEntry
					if json.Unmarshal(data, &ce) == nil && ce.Result == "unsat" {
						o.Result, o.Solver, o.Seconds, o.Cached = ce.Result, ce.Solver, ce.Seconds, true
						return
					}
				}
			}
			base := filepath.Join(opt.outDir, fmt.Sprintf("%04d_%s", idx, sanitize(o.Name)))
			if len(base) > 200 {
				base = filepath.Join(opt.outDir, fmt.Sprintf("%04d_%s", idx, o.SMTHash[:16]))
			}
			path := base + ".smt2"
			os.WriteFile(path, []byte(q), 0o644)
			o.SMTPath = path
			sem <- struct{}{}
			// staged attempts: the full prefix first (short limit), then assumption slices of
			// increasing depth, then the full prefix with the whole limit.  A discharged slice
			// is a proof (fewer assumptions); the answer for the full prefix is what is reported otherwise.
			short := opt.timeout / 4
			if short < 3 {
				short = 3
			}
			first := opt
			first.timeout = short
			if o.Kind == "cover" {
				// vacuity probe: one short attempt; anything but unsat is fine
				first.all = false
				e.race(o, path, first)
				<-sem
				if o.Result != "unsat" {
					os.Remove(path)
					o.SMTPath = ""
				}
				return
			}
			e.race(o, path, first)
			total := o.Seconds
			if o.Result != "unsat" && o.Result != "disagree" && !opt.noSlice {
				fullRes, fullOut := o.Result, o.Output
				for _, depth := range []int{1, 2, 3} {
					sq := e.buildQuerySliced(o, axs, false, depth)
					if sq == q {
						break
					}
					sp := fmt.Sprintf("%s.slice%d.smt2", base, depth)
					os.WriteFile(sp, []byte(sq), 0o644)
					so := &Obligation{Name: o.Name}
					e.race(so, sp, first)
					total += so.Seconds
					os.Remove(sp)
					if so.Result == "unsat" {
						o.Result, o.Solver, o.Output = "unsat", so.Solver+fmt.Sprintf(" (assumptions sliced to depth %d)", depth), so.Output
						break
					}
				}
				if o.Result != "unsat" {
					// ranked slices: only the few quantified assumptions closest to the goal
					for _, n := range []int{3, 6, 12, 24} {
						sq := e.buildQuerySliced(o, axs, false, -n)
						if sq == q {
							break
						}
						sp := fmt.Sprintf("%s.rank%d.smt2", base, n)
						os.WriteFile(sp, []byte(sq), 0o644)
						so := &Obligation{Name: o.Name}
						e.race(so, sp, first)
						total += so.Seconds
						os.Remove(sp)
						if so.Result == "unsat" {
							o.Result, o.Solver, o.Output = "unsat", so.Solver+fmt.Sprintf(" (the %d quantified assumptions closest to the goal)", n), so.Output
							break
						}
					}
				}
				if o.Result != "unsat" {
					o.Result, o.Output = fullRes, fullOut
					last := opt
					last.portfolio = true
					e.race(o, path, last)
					total += o.Seconds
				}
			}
			o.Seconds = total
			<-sem
			if o.Result == "unsat" {
				if opt.useCache {
					data, _ := json.Marshal(cacheEntry{o.Result, o.Solver, o.Seconds})
					writeFileAtomic(filepath.Join(opt.cacheDir, o.SMTHash+".json"), data)
				}
				os.Remove(path)
				o.SMTPath = ""
			}
		}(idx, o)
	}
	wg.Wait()
}

type solverAnswer struct {
	solver  string
	result  string
	seconds float64
	output  string
}

func runSolver(ctx context.Context, sd solverDef, file string, timeout, seed int) solverAnswer {
	args := sd.cmd(file, timeout, seed)
	start := time.Now()
	cctx, cancel := context.WithTimeout(ctx, time.Duration(timeout+3)*time.Second)
	defer cancel()
	cmd := exec.CommandContext(cctx, args[0], args[1:]...)
	var out bytes.Buffer
	cmd.Stdout = &out
	cmd.Stderr = &out
	cmd.Run()
	secs := time.Since(start).Seconds()
	text := out.String()
	first := ""
	for _, ln := range strings.Split(text, "\n") {
		ln = strings.TrimSpace(ln)
		if ln == "" || strings.HasPrefix(ln, "WARNING") {
			continue
		}
		first = ln
		break
	}
	res := "unknown"
	switch {
	case first == "unsat":
		res = "unsat"
	case first == "sat":
		res = "sat"
	case strings.Contains(text, "timeout") || cctx.Err() != nil:
		res = "timeout"
	case strings.Contains(first, "error") || strings.Contains(first, "Error"):
		res = "error"
	}
	if len(text) > 4000 {
		text = text[:4000]
	}
	return solverAnswer{sd.name, res, secs, text}
}

func (e *Engine) race(o *Obligation, path string, opt solveOpts) {
	ctx, cancel := context.WithCancel(context.Background())
	defer cancel()
	type job struct {
		sd   solverDef
		seed int
	}
	var jobs []job
	for _, sd := range solvers {
		jobs = append(jobs, job{sd, opt.seed})
	}
	if opt.portfolio {
		// last attempt: quantifier instantiation is sensitive to the random seed, so the two solvers that
		// decide most obligations are also run with further seeds; any unsat answer is a proof
		for _, sd := range solvers {
			extra := 0
			switch sd.name {
			case "z3-5.1.0":
				extra = 3
			case "cvc5-1.0", "z3-4.8.12":
				extra = 1
			}
			for k := 1; k <= extra; k++ {
				named := sd
				named.name = fmt.Sprintf("%s#seed+%d", sd.name, k)
				jobs = append(jobs, job{named, opt.seed + 7*k})
			}
		}
	}
	ch := make(chan solverAnswer, len(jobs))
	for _, j := range jobs {
		go func(j job) { ch <- runSolver(ctx, j.sd, path, opt.timeout, j.seed) }(j)
	}
	var answers []solverAnswer
	for range jobs {
		a := <-ch
		answers = append(answers, a)
		if a.result == "unsat" && !opt.all {
			cancel()
			break
		}
	}
	sort.Slice(answers, func(i, j int) bool { return answers[i].solver < answers[j].solver })
	var unsat, sat *solverAnswer
	var outs []string
	for i := range answers {
		a := &answers[i]
		outs = append(outs, fmt.Sprintf("[%s] %s (%.2fs) %s", a.solver, a.result, a.seconds, firstLines(a.output, 3)))
		if a.result == "unsat" && (unsat == nil || a.seconds < unsat.seconds) {
			unsat = a
		}
		if a.result == "sat" && sat == nil {
			sat = a
		}
	}
	o.Output = strings.Join(outs, "\n")
	switch {
	case unsat != nil && sat != nil:
		o.Result, o.Solver, o.Seconds = "disagree", unsat.solver+" vs "+sat.solver, unsat.seconds
	case unsat != nil:
		o.Result, o.Solver, o.Seconds = "unsat", unsat.solver, unsat.seconds
	case sat != nil:
		o.Result, o.Solver, o.Seconds = "sat", sat.solver, sat.seconds
	default:
		o.Result = "unknown"
		for _, a := range answers {
			if a.result == "timeout" {
				o.Result = "timeout"
			}
			if a.seconds > o.Seconds {
				o.Seconds = a.seconds
			}
		}
	}
}

func firstLines(s string, n int) string {
	lines := strings.Split(strings.TrimSpace(s), "\n")
	if len(lines) > n {
		lines = lines[:n]
	}
	return strings.Join(lines, " | ")
}
