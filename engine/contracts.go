package main

// Reader for contract files: Go files (or .spec files) whose //@ comment lines
// carry the contracts.  See DESIGN.md section 3.4 for the surface syntax.

import (
	"fmt"
	"os"
	"regexp"
	"sort"
	"strconv"
	"strings"
)

type Clause struct {
	Tags    []string
	Label   string
	Src     string
	Expr    SExpr
	Profile string // "" = all profiles
	File    string
	Line    int
	Free    bool // "free" clause: assumed, never asserted (listed as assumption)
}

type LoopSpec struct {
	N       int
	Header  string
	Index   string // name for the implicit index of a range loop
	Visited string // name for the visited set of a map range loop
	List    string // name for the evaluated range expression
	Frame   string // "entry": the automatic loop frame protects the objects that existed at function entry (default: at loop entry); "none": no automatic frame, written heap components are havoced for all objects
	Invs    []*Clause
	Line    int
}

type GhostStmt struct {
	Name  string // target ghost variable
	Index SExpr  // non-nil for name[index] = value
	Value SExpr
	Src   string
	// Kind: "assign" (default), "assert", "assume"
	Kind  string
	Label string
	Tags  []string
}

type AtSpec struct {
	Where  string // "entry", "exit", "call", "loopend"
	Callee string
	N      int
	When   string // before | after
	Stmts  []*GhostStmt
	Line   int
}

type GhostVar struct {
	Name string
	Type *SType
	Init SExpr
	Src  string
}

type Contract struct {
	Key      string // Name or Recv.Name; for externs "pkgpath.Name" / "pkgpath.Type.Method"
	Extern   bool
	Params   []string
	Results  []string
	Requires []*Clause
	Ensures  []*Clause
	Modifies []string
	Trusted  string // non-empty: body not verified; the text is the reason
	Pure     bool
	NoAlloc  bool
	Wraps    bool // fixed-width integer arithmetic in this function may wrap around (modelled, no overflow obligations)
	Ghosts   []*GhostVar
	Loops    map[int]*LoopSpec
	Ats      []*AtSpec
	Profiles []string
	Abstract map[string]string
	File     string
	Line     int
	CF       *ContractFile
	SameAs   string
	Lemmas   []string // lemmas made available to the obligations of this function
	Inline   bool
}

type SpecFunc struct {
	Name   string
	Params []SBinder
	Ret    *SType
	Body   SExpr // nil: uninterpreted
	Src    string
	CF     *ContractFile
}

type Axiom struct {
	Name string
	Expr SExpr
	Src  string
	CF   *ContractFile
	Tags []string
}

type Lemma struct {
	Name    string
	Expr    SExpr
	Src     string
	IndVar  string
	IndFrom SExpr
	Uses    []string
	CF      *ContractFile
	Line    int
}

type GhostGlobal struct {
	Name string
	Type *SType
	CF   *ContractFile
}

type ContractFile struct {
	Path      string
	PkgPath   string            // package the file belongs to ("" for external .spec files)
	Imports   map[string]string // alias -> package path (explicit, for .spec files)
	Consts    map[string]string // name -> literal (int or "string")
	SpecFuncs []*SpecFunc
	Axioms    []*Axiom
	Lemmas    []*Lemma
	Globals   []*GhostGlobal
	Dropped   []string
	Opaque    []string
	GlobalInits []*GlobalInit
	GlobalInvs []*Clause // facts about package-level variables, assumed at the entry of every function of the package
	Contracts []*Contract
	Text      string // concatenated //@ text (for field name scan and hashing)
	SortSpecs map[string]string
}

var clauseKeywords = map[string]bool{
	"import": true, "const": true, "spec": true, "axiom": true, "lemma": true, "induction": true, "uses": true,
	"ghost": true, "dropped": true, "opaque": true, "globalinv": true, "globalinit": true, "func": true, "extern": true, "interface": true, "params": true,
	"results": true, "requires": true, "profile": true, "ensures": true, "modifies": true,
	"trusted": true, "loop": true, "invariant": true, "at": true, "pure": true, "noalloc": true, "wraps": true,
	"profiles": true, "free": true, "sameas": true, "sortspec": true, "inline": true, "lemmas": true,
}

var labelRe = regexp.MustCompile(`^([A-Za-z_][A-Za-z0-9_\-]*):\s+`)
var tagsRe = regexp.MustCompile(`^\[([A-Za-z0-9_, ]+)\]\s*`)

type rawClause struct {
	kw   string
	text string
	line int
}

func readContractFile(path string, pkgPath string) (*ContractFile, error) {
	data, err := os.ReadFile(path)
	if err != nil {
		return nil, err
	}
	cf := &ContractFile{Path: path, PkgPath: pkgPath, Imports: map[string]string{}, Consts: map[string]string{}, SortSpecs: map[string]string{}}
	var raws []*rawClause
	var text strings.Builder
	for i, ln := range strings.Split(string(data), "\n") {
		t := strings.TrimSpace(ln)
		if strings.HasPrefix(t, "// @") {
			t = "//@" + t[4:] // gofmt rewrites //@ to // @ in doc comments
		}
		if !strings.HasPrefix(t, "//@") {
			continue
		}
		body := strings.TrimSpace(t[3:])
		if body == "" || strings.HasPrefix(body, "--") {
			continue
		}
		// strip trailing comments introduced by " -- "
		if k := strings.Index(body, " -- "); k >= 0 {
			body = strings.TrimSpace(body[:k])
		}
		text.WriteString(body)
		text.WriteString("\n")
		first := body
		if k := strings.IndexAny(body, " \t"); k >= 0 {
			first = body[:k]
		}
		if clauseKeywords[first] {
			raws = append(raws, &rawClause{kw: first, text: strings.TrimSpace(body[len(first):]), line: i + 1})
		} else {
			if len(raws) == 0 {
				return nil, fmt.Errorf("%s:%d: continuation line without a clause", path, i+1)
			}
			raws[len(raws)-1].text += " " + body
		}
	}
	cf.Text = text.String()

	var cur *Contract
	var curLoop *LoopSpec
	var curLemma *Lemma
	fail := func(rc *rawClause, msg string, a ...interface{}) error {
		return fmt.Errorf("%s:%d: %s", path, rc.line, fmt.Sprintf(msg, a...))
	}
	mkClause := func(rc *rawClause, txt string) (*Clause, error) {
		c := &Clause{File: path, Line: rc.line}
		if m := tagsRe.FindStringSubmatch(txt); m != nil {
			for _, tg := range strings.Split(m[1], ",") {
				c.Tags = append(c.Tags, strings.TrimSpace(tg))
			}
			txt = txt[len(m[0]):]
		}
		if m := labelRe.FindStringSubmatch(txt); m != nil {
			c.Label = m[1]
			txt = txt[len(m[0]):]
		}
		c.Src = txt
		e, err := parseSpec(txt)
		if err != nil {
			return nil, fail(rc, "%v", err)
		}
		c.Expr = e
		return c, nil
	}
	parseGhostStmt := func(rc *rawClause, txt string) (*GhostStmt, error) {
		txt = strings.TrimSpace(txt)
		gs := &GhostStmt{Src: txt, Kind: "assign"}
		if strings.HasPrefix(txt, "assert ") || strings.HasPrefix(txt, "assume ") {
			gs.Kind = txt[:6]
			c, err := mkClause(rc, strings.TrimSpace(txt[7:]))
			if err != nil {
				return nil, err
			}
			gs.Value = c.Expr
			gs.Label = c.Label
			gs.Tags = c.Tags
			return gs, nil
		}
		txt = strings.TrimPrefix(txt, "ghost ")
		// split at top-level " = "
		k := topLevelAssign(txt)
		if k < 0 {
			return nil, fail(rc, "ghost statement needs '=': %q", txt)
		}
		lhs := strings.TrimSpace(txt[:k])
		rhs := strings.TrimSpace(txt[k+1:])
		le, err := parseSpec(lhs)
		if err != nil {
			return nil, fail(rc, "%v", err)
		}
		switch l := le.(type) {
		case *SIdent:
			gs.Name = l.Name
		case *SIndex:
			id, ok := l.X.(*SIdent)
			if !ok {
				return nil, fail(rc, "ghost target must be name or name[index]")
			}
			gs.Name = id.Name
			gs.Index = l.I
		default:
			return nil, fail(rc, "ghost target must be name or name[index]")
		}
		re, err := parseSpec(rhs)
		if err != nil {
			return nil, fail(rc, "%v", err)
		}
		gs.Value = re
		return gs, nil
	}

	for _, rc := range raws {
		switch rc.kw {
		case "import":
			f := strings.Fields(rc.text)
			if len(f) != 2 {
				return nil, fail(rc, "import alias \"path\"")
			}
			cf.Imports[f[0]] = strings.Trim(f[1], "\"")
		case "const":
			k := strings.Index(rc.text, "=")
			if k < 0 {
				return nil, fail(rc, "const Name = value")
			}
			cf.Consts[strings.TrimSpace(rc.text[:k])] = strings.TrimSpace(rc.text[k+1:])
		case "dropped":
			cf.Dropped = append(cf.Dropped, strings.Fields(rc.text)...)
		case "opaque":
			cf.Opaque = append(cf.Opaque, strings.Fields(rc.text)...)
		case "globalinv":
			c, err := mkClause(rc, rc.text)
			if err != nil {
				return nil, err
			}
			cf.GlobalInvs = append(cf.GlobalInvs, c)
		case "globalinit":
			// globalinit [tags] name: <Go expression text of the initialiser>
			txt := rc.text
			var tags []string
			if m := tagsRe.FindStringSubmatch(txt); m != nil {
				for _, t := range strings.Split(m[1], ",") {
					tags = append(tags, strings.TrimSpace(t))
				}
				txt = txt[len(m[0]):]
			}
			k := strings.Index(txt, ":")
			if k < 0 {
				return nil, fail(rc, "globalinit name: expression")
			}
			cf.GlobalInits = append(cf.GlobalInits, &GlobalInit{Name: strings.TrimSpace(txt[:k]), Expr: strings.TrimSpace(txt[k+1:]), Tags: tags})
		case "sortspec":
			// sortspec TypeName: key expression over element "e" (ascending, strict weak order by key)
			k := strings.Index(rc.text, ":")
			if k < 0 {
				return nil, fail(rc, "sortspec Type: spec")
			}
			cf.SortSpecs[strings.TrimSpace(rc.text[:k])] = strings.TrimSpace(rc.text[k+1:])
		case "spec":
			// spec func name(params) ret [= body]
			txt := strings.TrimSpace(strings.TrimPrefix(rc.text, "func"))
			op := strings.Index(txt, "(")
			if op < 0 {
				return nil, fail(rc, "spec func name(params) type")
			}
			sf := &SpecFunc{Name: strings.TrimSpace(txt[:op]), Src: rc.text, CF: cf}
			cl := matchParen(txt, op)
			if cl < 0 {
				return nil, fail(rc, "unbalanced parens in spec func")
			}
			ps := strings.TrimSpace(txt[op+1 : cl])
			if ps != "" {
				for _, p := range splitTop(ps, ',') {
					p = strings.TrimSpace(p)
					k := strings.IndexAny(p, " \t")
					if k < 0 {
						return nil, fail(rc, "spec func parameter needs a type: %q", p)
					}
					ty, rest, err := parseSpecType(strings.TrimSpace(p[k:]))
					if err != nil || strings.TrimSpace(rest) != "" {
						return nil, fail(rc, "bad parameter type %q", p)
					}
					sf.Params = append(sf.Params, SBinder{p[:k], ty})
				}
			}
			rest := strings.TrimSpace(txt[cl+1:])
			ty, rest2, err := parseSpecType(rest)
			if err != nil {
				return nil, fail(rc, "bad return type: %v", err)
			}
			sf.Ret = ty
			rest2 = strings.TrimSpace(rest2)
			if strings.HasPrefix(rest2, "=") {
				e, err := parseSpec(strings.TrimSpace(rest2[1:]))
				if err != nil {
					return nil, fail(rc, "%v", err)
				}
				sf.Body = e
			} else if rest2 != "" {
				return nil, fail(rc, "unexpected text after return type: %q", rest2)
			}
			cf.SpecFuncs = append(cf.SpecFuncs, sf)
		case "axiom":
			txt := rc.text
			ax := &Axiom{CF: cf}
			if m := tagsRe.FindStringSubmatch(txt); m != nil {
				for _, tg := range strings.Split(m[1], ",") {
					ax.Tags = append(ax.Tags, strings.TrimSpace(tg))
				}
				txt = txt[len(m[0]):]
			}
			m := labelRe.FindStringSubmatch(txt)
			if m == nil {
				return nil, fail(rc, "axiom name: expr")
			}
			ax.Name = m[1]
			ax.Src = txt[len(m[0]):]
			e, err := parseSpec(ax.Src)
			if err != nil {
				return nil, fail(rc, "%v", err)
			}
			ax.Expr = e
			cf.Axioms = append(cf.Axioms, ax)
		case "lemma":
			m := labelRe.FindStringSubmatch(rc.text)
			if m == nil {
				return nil, fail(rc, "lemma name: expr")
			}
			src := rc.text[len(m[0]):]
			e, err := parseSpec(src)
			if err != nil {
				return nil, fail(rc, "%v", err)
			}
			curLemma = &Lemma{Name: m[1], Expr: e, Src: src, CF: cf, Line: rc.line}
			cf.Lemmas = append(cf.Lemmas, curLemma)
		case "induction":
			if curLemma == nil {
				return nil, fail(rc, "induction outside lemma")
			}
			f := strings.SplitN(rc.text, " from ", 2)
			if len(f) != 2 {
				return nil, fail(rc, "induction <var> from <expr>")
			}
			curLemma.IndVar = strings.TrimSpace(f[0])
			e, err := parseSpec(f[1])
			if err != nil {
				return nil, fail(rc, "%v", err)
			}
			curLemma.IndFrom = e
		case "uses":
			if curLemma == nil {
				return nil, fail(rc, "uses outside lemma")
			}
			for _, u := range strings.FieldsFunc(rc.text, func(r rune) bool { return r == ',' || r == ' ' }) {
				curLemma.Uses = append(curLemma.Uses, u)
			}
		case "func", "extern", "interface":
			cur = &Contract{Key: strings.TrimSpace(rc.text), Extern: rc.kw == "extern", Loops: map[int]*LoopSpec{}, File: path, Line: rc.line, CF: cf, Abstract: map[string]string{}}
			curLoop = nil
			curLemma = nil
			cf.Contracts = append(cf.Contracts, cur)
		case "ghost":
			if strings.HasPrefix(rc.text, "global ") {
				f := strings.TrimSpace(rc.text[7:])
				k := strings.IndexAny(f, " \t")
				if k < 0 {
					return nil, fail(rc, "ghost global name type")
				}
				ty, rest, err := parseSpecType(strings.TrimSpace(f[k:]))
				if err != nil || strings.TrimSpace(rest) != "" {
					return nil, fail(rc, "bad ghost global type")
				}
				cf.Globals = append(cf.Globals, &GhostGlobal{Name: f[:k], Type: ty, CF: cf})
				continue
			}
			if !strings.HasPrefix(rc.text, "var ") || cur == nil {
				return nil, fail(rc, "ghost var name type [= init] (inside a func contract) or ghost global name type")
			}
			f := strings.TrimSpace(rc.text[4:])
			k := strings.IndexAny(f, " \t")
			if k < 0 {
				return nil, fail(rc, "ghost var name type")
			}
			gv := &GhostVar{Name: f[:k], Src: rc.text}
			ty, rest, err := parseSpecType(strings.TrimSpace(f[k:]))
			if err != nil {
				return nil, fail(rc, "bad ghost var type: %v", err)
			}
			gv.Type = ty
			rest = strings.TrimSpace(rest)
			if strings.HasPrefix(rest, "=") {
				e, err := parseSpec(strings.TrimSpace(rest[1:]))
				if err != nil {
					return nil, fail(rc, "%v", err)
				}
				gv.Init = e
			}
			cur.Ghosts = append(cur.Ghosts, gv)
		default:
			if cur == nil {
				return nil, fail(rc, "%s outside a func contract", rc.kw)
			}
			switch rc.kw {
			case "params":
				cur.Params = splitNames(rc.text)
			case "results":
				cur.Results = splitNames(rc.text)
			case "profiles":
				cur.Profiles = splitNames(rc.text)
			case "pure":
				cur.Pure = true
			case "inline":
				cur.Inline = true
			case "noalloc":
				cur.NoAlloc = true
			case "wraps":
				cur.Wraps = true
			case "sameas":
				cur.SameAs = strings.TrimSpace(rc.text)
			case "lemmas":
				cur.Lemmas = append(cur.Lemmas, splitNames(rc.text)...)
			case "trusted":
				cur.Trusted = strings.Trim(strings.TrimSpace(rc.text), "\"")
				if cur.Trusted == "" {
					cur.Trusted = "trusted"
				}
			case "modifies":
				for _, m := range splitTop(rc.text, ',') {
					cur.Modifies = append(cur.Modifies, strings.TrimSpace(m))
				}
			case "requires", "ensures", "free":
				txt := rc.text
				kw := rc.kw
				free := false
				if kw == "free" {
					free = true
					f := strings.SplitN(txt, " ", 2)
					if len(f) != 2 || (f[0] != "requires" && f[0] != "ensures") {
						return nil, fail(rc, "free requires|ensures expr")
					}
					kw = f[0]
					txt = strings.TrimSpace(f[1])
				}
				c, err := mkClause(rc, txt)
				if err != nil {
					return nil, err
				}
				c.Free = free
				if kw == "requires" {
					cur.Requires = append(cur.Requires, c)
				} else {
					cur.Ensures = append(cur.Ensures, c)
				}
			case "profile":
				f := strings.SplitN(rc.text, " ", 3)
				free := false
				if len(f) == 3 && f[1] == "free" {
					free = true
					g := strings.SplitN(strings.TrimSpace(f[2]), " ", 2)
					if len(g) == 2 {
						f = []string{f[0], g[0], g[1]}
					}
				}
				if len(f) == 3 && f[1] == "invariant" {
					if curLoop == nil {
						return nil, fail(rc, "invariant outside loop")
					}
					c, err := mkClause(rc, strings.TrimSpace(f[2]))
					if err != nil {
						return nil, err
					}
					c.Profile = f[0]
					curLoop.Invs = append(curLoop.Invs, c)
					break
				}
				if len(f) != 3 || (f[1] != "requires" && f[1] != "ensures") {
					return nil, fail(rc, "profile <name> [free] requires|ensures|invariant expr")
				}
				c, err := mkClause(rc, strings.TrimSpace(f[2]))
				if err != nil {
					return nil, err
				}
				c.Free = free
				c.Profile = f[0]
				if f[1] == "requires" {
					cur.Requires = append(cur.Requires, c)
				} else {
					cur.Ensures = append(cur.Ensures, c)
				}
			case "loop":
				// loop N "header" [index k] [visited V] [list L]
				f := strings.Fields(rc.text)
				if len(f) < 1 {
					return nil, fail(rc, "loop N ...")
				}
				n, err := strconv.Atoi(f[0])
				if err != nil {
					return nil, fail(rc, "loop ordinal: %v", err)
				}
				ls := &LoopSpec{N: n, Line: rc.line}
				rest := strings.TrimSpace(rc.text[len(f[0]):])
				if strings.HasPrefix(rest, "\"") {
					e := strings.Index(rest[1:], "\"")
					if e < 0 {
						return nil, fail(rc, "unterminated loop header")
					}
					ls.Header = rest[1 : 1+e]
					rest = strings.TrimSpace(rest[e+2:])
				}
				g := strings.Fields(rest)
				for i := 0; i+1 < len(g); i += 2 {
					switch g[i] {
					case "index":
						ls.Index = g[i+1]
					case "visited":
						ls.Visited = g[i+1]
					case "list":
						ls.List = g[i+1]
					case "frame":
						ls.Frame = g[i+1]
					default:
						return nil, fail(rc, "unknown loop option %q", g[i])
					}
				}
				cur.Loops[n] = ls
				curLoop = ls
			case "invariant":
				if curLoop == nil {
					return nil, fail(rc, "invariant outside loop")
				}
				c, err := mkClause(rc, rc.text)
				if err != nil {
					return nil, err
				}
				curLoop.Invs = append(curLoop.Invs, c)
			case "at":
				// at entry: stmt | at exit: stmt | at call Callee#N before|after: stmt | at loopend N: stmt
				k := strings.Index(rc.text, ":")
				if k < 0 {
					return nil, fail(rc, "at <where>: ghost stmt")
				}
				head := strings.Fields(rc.text[:k])
				as := &AtSpec{Line: rc.line}
				switch {
				case len(head) == 1 && (head[0] == "entry" || head[0] == "exit"):
					as.Where = head[0]
				case len(head) == 3 && head[0] == "call":
					as.Where = "call"
					cn := strings.SplitN(head[1], "#", 2)
					as.Callee = cn[0]
					as.N = 1
					if len(cn) == 2 {
						n, err := strconv.Atoi(cn[1])
						if err != nil {
							return nil, fail(rc, "bad call ordinal")
						}
						as.N = n
					}
					as.When = head[2]
					if as.When != "before" && as.When != "after" {
						return nil, fail(rc, "before|after expected")
					}
				case len(head) == 2 && (head[0] == "loopend" || head[0] == "loopstart" || head[0] == "loopexit"):
					as.Where = head[0]
					n, err := strconv.Atoi(head[1])
					if err != nil {
						return nil, fail(rc, "bad loop ordinal")
					}
					as.N = n
				default:
					return nil, fail(rc, "bad 'at' location %q", rc.text[:k])
				}
				for _, s := range splitTop(rc.text[k+1:], ';') {
					if strings.TrimSpace(s) == "" {
						continue
					}
					gs, err := parseGhostStmt(rc, s)
					if err != nil {
						return nil, err
					}
					as.Stmts = append(as.Stmts, gs)
				}
				cur.Ats = append(cur.Ats, as)
			default:
				return nil, fail(rc, "unexpected keyword %q", rc.kw)
			}
		}
	}
	return cf, nil
}

func splitNames(s string) []string {
	var out []string
	for _, f := range strings.FieldsFunc(s, func(r rune) bool { return r == ',' || r == ' ' || r == '\t' }) {
		out = append(out, f)
	}
	return out
}

// splitTop splits s at sep occurring outside (), [], {} and string literals.
func splitTop(s string, sep byte) []string {
	var out []string
	depth := 0
	inStr := false
	last := 0
	for i := 0; i < len(s); i++ {
		c := s[i]
		if inStr {
			if c == '\\' {
				i++
			} else if c == '"' {
				inStr = false
			}
			continue
		}
		switch c {
		case '"':
			inStr = true
		case '(', '[', '{':
			depth++
		case ')', ']', '}':
			depth--
		default:
			if c == sep && depth == 0 {
				out = append(out, s[last:i])
				last = i + 1
			}
		}
	}
	out = append(out, s[last:])
	return out
}

func matchParen(s string, open int) int {
	depth := 0
	for i := open; i < len(s); i++ {
		switch s[i] {
		case '(':
			depth++
		case ')':
			depth--
			if depth == 0 {
				return i
			}
		}
	}
	return -1
}

// topLevelAssign finds the index of a single '=' (not ==, <=, >=, !=, ==>) at depth 0.
func topLevelAssign(s string) int {
	depth := 0
	inStr := false
	for i := 0; i < len(s); i++ {
		c := s[i]
		if inStr {
			if c == '\\' {
				i++
			} else if c == '"' {
				inStr = false
			}
			continue
		}
		switch c {
		case '"':
			inStr = true
		case '(', '[', '{':
			depth++
		case ')', ']', '}':
			depth--
		case '=':
			if depth != 0 {
				continue
			}
			prev := byte(' ')
			if i > 0 {
				prev = s[i-1]
			}
			next := byte(' ')
			if i+1 < len(s) {
				next = s[i+1]
			}
			if prev == '=' || prev == '!' || prev == '<' || prev == '>' || next == '=' {
				continue
			}
			return i
		}
	}
	return -1
}

func sortedKeys(m map[string]bool) []string {
	var ks []string
	for k := range m {
		ks = append(ks, k)
	}
	sort.Strings(ks)
	return ks
}

// GlobalInit pins the initialiser of a package-level variable (see checkGlobalInit).
type GlobalInit struct {
	Name string
	Expr string
	Tags []string
}
