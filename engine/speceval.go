package main

import (
	"go/constant"
	"fmt"
	"go/types"
	"strconv"
	"strings"

	"golang.org/x/tools/go/packages"
)

type specErr string

func specFail(format string, a ...interface{}) {
	panic(specErr(fmt.Sprintf(format, a...)))
}

type SpecEnv struct {
	e        *Engine
	st       *State
	old      *State
	names    map[string]*Value
	oldNames map[string]*Value // bindings to use inside old(...) when they differ (slice arguments modified in place)
	goLookup func(name string, old bool) (*Value, bool)
	cf       *ContractFile
	pkg      *packages.Package
	inOld    bool
	depth    int
	trigger  bool // evaluating a quantifier pattern: produce pure terms
}

func (env *SpecEnv) with(names map[string]*Value) *SpecEnv {
	n := *env
	n.names = map[string]*Value{}
	for k, v := range env.names {
		n.names[k] = v
	}
	for k, v := range names {
		n.names[k] = v
	}
	return &n
}

var nilValue = &Value{Sh: nil}

func (env *SpecEnv) state() *State {
	if env.inOld && env.old != nil {
		return env.old
	}
	return env.st
}

func boolV(t string) *Value { return scalar(shBool, t) }
func intV(t string) *Value  { return scalar(shInt, t) }

func (env *SpecEnv) evalBool(x SExpr) string {
	v := env.eval(x)
	if v == nilValue || v.Sh.Kind != KBool {
		specFail("boolean expected: %s", specString(x))
	}
	return v.T()
}

func (env *SpecEnv) evalInt(x SExpr) string {
	v := env.eval(x)
	if v == nilValue || (v.Sh.Kind != KInt && v.Sh.Kind != KRef && v.Sh.Kind != KMapRef && v.Sh.Kind != KErr && v.Sh.Kind != KOpaque && v.Sh.Kind != KFunc) {
		specFail("integer expected: %s (got %v)", specString(x), v.Sh)
	}
	return v.T()
}

func (e *Engine) lookupConst(name string) (string, bool) {
	v, ok := e.consts[name]
	return v, ok
}

func (env *SpecEnv) eval(x SExpr) *Value {
	e := env.e
	switch n := x.(type) {
	case *SInt:
		return intV(n.V)
	case *SStr:
		s, err := strconv.Unquote("\"" + n.V + "\"")
		if err != nil {
			s = n.V
		}
		return scalar(shStr, e.strLit(s))
	case *SIdent:
		switch n.Name {
		case "true", "false":
			return boolV(n.Name)
		case "nil":
			return nilValue
		}
		if env.inOld && env.oldNames != nil {
			if v, ok := env.oldNames[n.Name]; ok {
				return v
			}
		}
		if v, ok := env.names[n.Name]; ok {
			return v
		}
		if v, ok := env.state().ghost[n.Name]; ok {
			return v
		}
		if env.goLookup != nil {
			if v, ok := env.goLookup(n.Name, env.inOld); ok {
				return v
			}
		}
		if c, ok := e.consts[n.Name]; ok {
			if strings.HasPrefix(c, "\"") {
				s, _ := strconv.Unquote(c)
				return scalar(shStr, e.strLit(s))
			}
			return intV(intLit(c))
		}
		specFail("unknown name %q", n.Name)
	case *SUnary:
		switch n.Op {
		case "!":
			return boolV(not(env.evalBool(n.X)))
		case "-":
			return intV("(- " + env.evalInt(n.X) + ")")
		}
	case *SBinary:
		switch n.Op {
		case "&&":
			return boolV(and(env.evalBool(n.L), env.evalBool(n.R)))
		case "||":
			return boolV(or(env.evalBool(n.L), env.evalBool(n.R)))
		case "==>":
			return boolV(imp(env.evalBool(n.L), env.evalBool(n.R)))
		case "<==>":
			return boolV(eq(env.evalBool(n.L), env.evalBool(n.R)))
		case "==", "!=":
			l := env.eval(n.L)
			r := env.eval(n.R)
			t := e.valuesEqual(l, r)
			if n.Op == "!=" {
				t = not(t)
			}
			return boolV(t)
		case "<", "<=", ">", ">=":
			l := env.eval(n.L)
			r := env.eval(n.R)
			if l != nilValue && l.Sh.Kind == KStr {
				lt := e.declFun("slt", []string{"Str", "Str"}, "Bool")
				switch n.Op {
				case "<":
					return boolV(app(lt, l.T(), r.T()))
				case ">":
					return boolV(app(lt, r.T(), l.T()))
				case "<=":
					return boolV(not(app(lt, r.T(), l.T())))
				default:
					return boolV(not(app(lt, l.T(), r.T())))
				}
			}
			return boolV("(" + n.Op + " " + scalarT(l, x) + " " + scalarT(r, x) + ")")
		case "+", "-", "*":
			return intV("(" + n.Op + " " + env.evalInt(n.L) + " " + env.evalInt(n.R) + ")")
		case "/":
			return intV("(div " + env.evalInt(n.L) + " " + env.evalInt(n.R) + ")")
		case "%":
			return intV("(mod " + env.evalInt(n.L) + " " + env.evalInt(n.R) + ")")
		}
	case *SSel:
		// pkgalias.Name: a package-level variable or constant of an imported package
		if id, isId := n.X.(*SIdent); isId && !env.knownName(id.Name) {
			if p := e.importByAlias(env.cf, env.pkg, id.Name); p != nil {
				switch o := p.Scope().Lookup(n.Name).(type) {
				case *types.Var:
					return e.globalValue(o)
				case *types.Const:
					if o.Val().Kind() == constant.String {
						return scalar(shStr, e.strLit(constant.StringVal(o.Val())))
					}
					if o.Val().Kind() == constant.Int {
						return intV(intLit(o.Val().ExactString()))
					}
				}
				specFail("no package-level variable or constant %s.%s", id.Name, n.Name)
			}
		}
		base := env.eval(n.X)
		if base == nilValue {
			specFail("selection on nil")
		}
		v, ok := e.selectByName(env.state(), base, n.Name)
		if !ok {
			specFail("no field %q in %s (%s)", n.Name, base.Sh, specString(x))
		}
		return v
	case *SIndex:
		base := env.eval(n.X)
		idx := env.eval(n.I)
		switch base.Sh.Kind {
		case KSlice:
			return e.sliceElem(base, scalarT(idx, x))
		case KSet:
			return boolV(sel(base.T(), scalarT(idx, x)))
		case KTotal:
			return scalar(base.Sh.Elem(), sel(base.T(), scalarT(idx, x)))
		case KMapRef:
			return e.mapGet(env.state(), base, scalarT(idx, x))
		}
		specFail("cannot index %s", base.Sh)
	case *SQuant:
		return env.evalQuant(n)
	case *SCall:
		return env.evalCall(n)
	}
	specFail("cannot evaluate %s", specString(x))
	return nil
}

func scalarT(v *Value, ctx SExpr) string {
	if v == nilValue {
		return "0"
	}
	if len(v.L) != 1 {
		specFail("scalar expected in %s (got %s)", specString(ctx), v.Sh)
	}
	return v.L[0]
}

func (e *Engine) valuesEqual(l, r *Value) string {
	if l == nilValue && r == nilValue {
		return "true"
	}
	if l == nilValue {
		l, r = r, l
	}
	if r == nilValue {
		switch l.Sh.Kind {
		case KRef, KMapRef, KErr, KFunc, KOpaque, KInt:
			return eq(l.T(), "0")
		case KIface:
			return eq(l.L[0], "0")
		case KSlice:
			return eq(l.L[0], "0")
		}
		specFail("cannot compare %s with nil", l.Sh)
	}
	if len(l.L) != len(r.L) {
		specFail("cannot compare %s with %s", l.Sh, r.Sh)
	}
	var cs []string
	for i := range l.L {
		cs = append(cs, eq(l.L[i], r.L[i]))
	}
	return and(cs...)
}

// selectByName selects a field (through embedded structs and pointers).
func (e *Engine) selectByName(st *State, base *Value, name string) (*Value, bool) {
	switch base.Sh.Kind {
	case KStruct:
		if v, ok := e.field(base, name); ok {
			return v, true
		}
		for _, f := range base.Sh.Fields {
			if f.Embedded && f.Sh.Kind == KStruct {
				fv, _ := e.field(base, f.Name)
				if v, ok := e.selectByName(st, fv, name); ok {
					return v, true
				}
			}
		}
		return nil, false
	case KRef:
		es := base.Sh.Elem()
		if es == nil || es.Kind != KStruct {
			return nil, false
		}
		return e.readFieldByName(st, es, base.T(), name)
	}
	return nil, false
}

func (e *Engine) readFieldByName(st *State, ssh *Shape, ref string, name string) (*Value, bool) {
	if f := e.findField(ssh, name); f != nil {
		return e.readFieldAt(st, ssh, f, ref), true
	}
	for _, f := range ssh.Fields {
		if f.Embedded && f.Sh.Kind == KStruct {
			if v, ok := e.readFieldByName(st, f.Sh, ref, name); ok {
				return v, true
			}
		}
	}
	return nil, false
}

func (env *SpecEnv) evalQuant(q *SQuant) *Value {
	e := env.e
	names := map[string]*Value{}
	var binders []string
	var guards []string
	for _, b := range q.Vars {
		sh := env.resolveType(b.Type)
		sorts := e.leafSorts(sh)
		if len(sorts) != 1 {
			specFail("quantified variable %s must be scalar (type %s)", b.Name, b.Type)
		}
		e.nfresh++
		sym := smtSym(fmt.Sprintf("%s!b%d", b.Name, e.nfresh))
		binders = append(binders, "("+sym+" "+sorts[0]+")")
		v := scalar(sh, sym)
		names[b.Name] = v
		if sh.Kind == KInt && sh.Bits > 0 {
			guards = append(guards, e.typeFacts(v)...)
		}
	}
	inner := env.with(names)
	body := inner.evalBool(q.Body)
	var pats []string
	for _, tr := range q.Triggers {
		var ts []string
		for _, t := range tr {
			tenv := *inner
			tenv.trigger = true
			v := (&tenv).eval(t)
			ts = append(ts, v.L...)
		}
		pats = append(pats, ":pattern ("+strings.Join(ts, " ")+")")
	}
	if q.Forall {
		body = imp(and(guards...), body)
	} else {
		body = and(append(guards, body)...)
	}
	if len(pats) > 0 {
		body = "(! " + body + " " + strings.Join(pats, " ") + ")"
	}
	kw := "forall"
	if !q.Forall {
		kw = "exists"
	}
	return boolV("(" + kw + " (" + strings.Join(binders, " ") + ") " + body + ")")
}

func (env *SpecEnv) evalCall(c *SCall) *Value {
	e := env.e
	// method-style builtins
	if s, ok := c.Fun.(*SSel); ok {
		switch s.Name {
		case "has":
			recv := env.eval(s.X)
			if len(c.Args) != 1 {
				specFail("has(x) takes one argument")
			}
			k := scalarT(env.eval(c.Args[0]), c)
			switch recv.Sh.Kind {
			case KSet:
				return boolV(sel(recv.T(), k))
			case KMapRef:
				if env.trigger {
					dk, dsh := e.mapDomKey(recv.Sh)
					return boolV(sel(e.heapRead(env.state(), dk, dsh, recv.T()).T(), k))
				}
				return boolV(e.mapHas(env.state(), recv, k))
			}
			specFail("has() on %s", recv.Sh)
		case "get":
			recv := env.eval(s.X)
			k := scalarT(env.eval(c.Args[0]), c)
			if recv.Sh.Kind == KMapRef {
				return e.mapGetRaw(env.state(), recv, k)
			}
			specFail("get() on %s", recv.Sh)
		}
		specFail("unknown method %s in spec", s.Name)
	}
	id, ok := c.Fun.(*SIdent)
	if !ok {
		specFail("call of non-identifier in spec")
	}
	switch id.Name {
	case "old":
		n := *env
		n.inOld = true
		return (&n).eval(c.Args[0])
	case "len":
		v := env.eval(c.Args[0])
		switch v.Sh.Kind {
		case KSlice:
			return intV(sliceLen(v))
		case KStr:
			return intV(app(e.declFun("slen", []string{"Str"}, "Int"), v.T()))
		case KMapRef:
			card := e.declFun("map.len", []string{"(Array " + e.leafSorts(v.Sh.Key)[0] + " Bool)"}, "Int")
			dk, dsh := e.mapDomKey(v.Sh)
			return intV(ite(eq(v.T(), "0"), "0", app(card, e.heapRead(env.state(), dk, dsh, v.T()).T())))
		}
		specFail("len of %s", v.Sh)
	case "deref":
		v := env.eval(c.Args[0])
		if v == nilValue || v.Sh.Kind != KRef {
			specFail("deref of non-pointer")
		}
		return e.deref(env.state(), v)
	case "bytesToString":
		v := env.eval(c.Args[0])
		if v.Sh.Kind != KSlice || len(v.L) != 2 {
			specFail("bytesToString of %s", v.Sh)
		}
		return scalar(shStr, e.bytesToStr(v))
	case "dom":
		v := env.eval(c.Args[0])
		if v.Sh.Kind != KMapRef {
			specFail("dom of %s", v.Sh)
		}
		dk, dsh := e.mapDomKey(v.Sh)
		if env.trigger {
			// in a quantifier pattern: the raw heap read (no nil guard)
			return scalar(dsh, e.heapRead(env.state(), dk, dsh, v.T()).T())
		}
		return scalar(dsh, e.mapDom(env.state(), v))
	case "vals":
		v := env.eval(c.Args[0])
		if v.Sh.Kind != KMapRef {
			specFail("vals of %s", v.Sh)
		}
		vk, vsh := e.mapValKey(v.Sh)
		return e.heapRead(env.state(), vk, vsh, v.T())
	case "fresh":
		v := env.eval(c.Args[0])
		oa := env.st.alloc
		if env.old != nil {
			oa = env.old.alloc
		}
		// allocated since the old state: at or above the old allocation mark, below the current one
		return boolV(and("(>= "+scalarT(v, c)+" "+oa+")", "(> "+scalarT(v, c)+" 0)", "(< "+scalarT(v, c)+" "+env.st.alloc+")"))
	case "allocMark":
		return intV(env.state().alloc)
	case "allocated":
		v := env.eval(c.Args[0])
		return boolV(and("(<= 0 "+scalarT(v, c)+")", "(< "+scalarT(v, c)+" "+env.state().alloc+")"))
	case "ite":
		cnd := env.evalBool(c.Args[0])
		a := env.eval(c.Args[1])
		b := env.eval(c.Args[2])
		if a == nilValue {
			a = e.zeroValue(b.Sh)
		}
		if b == nilValue {
			b = e.zeroValue(a.Sh)
		}
		l := make([]string, len(a.L))
		for i := range a.L {
			l[i] = ite(cnd, a.L[i], b.L[i])
		}
		return &Value{Sh: a.Sh, L: l}
	case "store":
		s := env.eval(c.Args[0])
		k := scalarT(env.eval(c.Args[1]), c)
		v := scalarT(env.eval(c.Args[2]), c)
		return scalar(s.Sh, sto(s.T(), k, v))
	case "emptyset":
		sh := &Shape{Kind: KSet, Key: shInt, eng: e}
		return scalar(sh, "((as const (Array Int Bool)) false)")
	case "typeIs":
		v := env.eval(c.Args[0])
		ts, ok := c.Args[1].(*SStr)
		if !ok || v.Sh.Kind != KIface {
			specFail("typeIs(ifaceValue, \"type\")")
		}
		return boolV(eq(v.L[0], e.typeTag(env.resolveGoType(ts.V))))
	case "asRef":
		v := env.eval(c.Args[0])
		ts, ok := c.Args[1].(*SStr)
		if !ok || v.Sh.Kind != KIface {
			specFail("asRef(ifaceValue, \"type\")")
		}
		return scalar(e.shapeOf(env.resolveGoType(ts.V)), v.L[1])
	case "asPtr":
		// asPtr(ref, "*T"): the same reference viewed as a pointer to an embedded struct type T
		v := env.eval(c.Args[0])
		ts, ok := c.Args[1].(*SStr)
		if !ok || v == nilValue || v.Sh.Kind != KRef {
			specFail("asPtr(ref, \"*T\")")
		}
		return scalar(e.shapeOf(env.resolveGoType(ts.V)), v.T())
	case "ifaceStr":
		// the string held by an interface value (a queue key)
		v := env.eval(c.Args[0])
		if v.Sh.Kind != KIface {
			specFail("ifaceStr of %s", v.Sh)
		}
		e.ensureBoxStrAxiom()
		return scalar(shStr, app("unbox.str", v.L[1]))
	case "strIface":
		v := env.eval(c.Args[0])
		e.ensureBoxStrAxiom()
		return &Value{Sh: shIface, L: []string{e.typeTag(types.Typ[types.String]), app("box.str", v.T())}}
	case "ifaceOf":
		// ifaceOf(ref, "type"): the interface value holding that pointer
		v := env.eval(c.Args[0])
		ts, ok := c.Args[1].(*SStr)
		if !ok {
			specFail("ifaceOf(ref, \"type\")")
		}
		return &Value{Sh: shIface, L: []string{ite(eq(scalarT(v, c), "0"), "0", e.typeTag(env.resolveGoType(ts.V))), scalarT(v, c)}}
	case "sprintf":
		// sprintf("format", args...) : the uninterpreted image of fmt.Sprintf with a literal format
		fs, ok := c.Args[0].(*SStr)
		if !ok {
			specFail("sprintf needs a literal format")
		}
		f, _ := strconv.Unquote("\"" + fs.V + "\"")
		var args []*Value
		for _, a := range c.Args[1:] {
			args = append(args, env.eval(a))
		}
		return e.sprintfTerm(f, args)
	}
	sf, ok := e.specFuncs[id.Name]
	if !ok {
		specFail("unknown spec function %q", id.Name)
	}
	if len(c.Args) != len(sf.Params) {
		specFail("spec function %s expects %d arguments, got %d", sf.Name, len(sf.Params), len(c.Args))
	}
	defEnv := &SpecEnv{e: e, st: env.st, old: env.old, cf: sf.CF, pkg: e.pkgForCF(sf.CF), inOld: env.inOld, depth: env.depth + 1, trigger: env.trigger}
	if env.depth > 40 {
		specFail("spec function recursion too deep at %s", sf.Name)
	}
	args := make([]*Value, len(c.Args))
	for i, a := range c.Args {
		v := env.eval(a)
		psh := defEnv.resolveType(sf.Params[i].Type)
		args[i] = env.coerce(v, psh, sf.Name)
	}
	if sf.Body != nil {
		names := map[string]*Value{}
		for i, p := range sf.Params {
			names[p.Name] = args[i]
		}
		defEnv.names = names
		return defEnv.eval(sf.Body)
	}
	// uninterpreted
	var asorts, aterms []string
	for _, a := range args {
		asorts = append(asorts, e.leafSorts(a.Sh)...)
		aterms = append(aterms, a.L...)
	}
	rsh := defEnv.resolveType(sf.Ret)
	rs := e.leafSorts(rsh)
	if len(rs) != 1 {
		specFail("uninterpreted spec function %s must return a scalar", sf.Name)
	}
	fn := e.declFun(smtSym("sf."+sf.Name), asorts, rs[0])
	return scalar(rsh, app(fn, aterms...))
}

func (env *SpecEnv) coerce(v *Value, want *Shape, ctx string) *Value {
	e := env.e
	if v == nilValue {
		return e.zeroValue(want)
	}
	if v.Sh.Kind == KMapRef && want.Kind == KSet {
		dk, dsh := e.mapDomKey(v.Sh)
		if env.trigger {
			// in a quantifier pattern: the raw heap read (no nil guard)
			return scalar(dsh, e.heapRead(env.state(), dk, dsh, v.T()).T())
		}
		return scalar(dsh, e.mapDom(env.state(), v))
	}
	if len(v.L) != e.nLeaves(want) {
		specFail("argument of %s: cannot pass %s as %s", ctx, v.Sh, want)
	}
	if want.Kind == KRef && want.Elem() != nil && v.Sh.Kind == KRef {
		return &Value{Sh: want, L: v.L}
	}
	return v
}

func (e *Engine) pkgForCF(cf *ContractFile) *packages.Package {
	if cf == nil || cf.PkgPath == "" {
		return nil
	}
	return e.pkgs[cf.PkgPath]
}

// sprintfTerm is the uninterpreted image of fmt.Sprintf(format, args...).
func (e *Engine) sprintfTerm(format string, args []*Value) *Value {
	var sorts, terms []string
	for _, a := range args {
		if a == nilValue {
			sorts = append(sorts, "Int")
			terms = append(terms, "0")
			continue
		}
		sorts = append(sorts, e.leafSorts(a.Sh)...)
		terms = append(terms, a.L...)
	}
	name := smtSym("sprintf." + sanitize(format) + "." + fmt.Sprint(len(format)) + "." + strings.Join(sanitizeAll(sorts), "_"))
	fn := e.declFun(name, sorts, "Str")
	if len(terms) == 0 {
		return scalar(shStr, e.strLit(format))
	}
	return scalar(shStr, app(fn, terms...))
}

func sanitizeAll(ss []string) []string {
	out := make([]string, len(ss))
	for i, s := range ss {
		out[i] = sanitize(s)
	}
	return out
}

// ---------------------------------------------------------------- types

func (env *SpecEnv) resolveType(t *SType) *Shape {
	e := env.e
	switch t.Kind {
	case "ptr":
		if t.Elem.Kind == "name" {
			switch t.Elem.Name {
			case "int32", "int64", "int", "bool", "string":
				gt := env.resolveGoType("*" + t.Elem.Name)
				return e.shapeOf(gt)
			}
		}
		return e.shapeOf(env.resolveGoType(t.String()))
	case "slice":
		if gt := env.tryGoType(t.String()); gt != nil {
			return e.shapeOf(gt)
		}
		return &Shape{Kind: KSlice, elem: env.resolveType(t.Elem), eng: e}
	case "set":
		return &Shape{Kind: KSet, Key: env.resolveType(t.Elem), eng: e}
	case "map":
		return &Shape{Kind: KTotal, Key: env.resolveType(t.Key), elem: env.resolveType(t.Elem), eng: e}
	case "gomap":
		return e.shapeOf(env.resolveGoType(t.String()))
	case "name":
		switch t.Name {
		case "int":
			return shInt
		case "int32":
			return shInt32
		case "int64":
			return shInt
		case "bool":
			return shBool
		case "string":
			return shStr
		case "ref":
			return shRef
		case "error":
			return shErr
		case "iface":
			return shIface
		case "opaque":
			return shOpaque
		}
		return e.shapeOf(env.resolveGoType(t.Name))
	}
	specFail("cannot resolve type %s", t)
	return nil
}

func (env *SpecEnv) tryGoType(s string) (t types.Type) {
	defer func() {
		if r := recover(); r != nil {
			if _, ok := r.(specErr); ok {
				t = nil
				return
			}
			panic(r)
		}
	}()
	return env.resolveGoType(s)
}

// resolveGoType resolves a Go type expression (restricted forms) in the
// context of the contract file's package.
func (env *SpecEnv) resolveGoType(s string) types.Type {
	s = strings.TrimSpace(s)
	switch {
	case strings.HasPrefix(s, "*"):
		return types.NewPointer(env.resolveGoType(s[1:]))
	case strings.HasPrefix(s, "[]"):
		return types.NewSlice(env.resolveGoType(s[2:]))
	case strings.HasPrefix(s, "map["):
		// map[K]V with K a simple (bracket-free) type
		if k := strings.Index(s, "]"); k > 0 {
			return types.NewMap(env.resolveGoType(s[4:k]), env.resolveGoType(s[k+1:]))
		}
	}
	switch s {
	case "int":
		return types.Typ[types.Int]
	case "int32":
		return types.Typ[types.Int32]
	case "int64":
		return types.Typ[types.Int64]
	case "byte", "uint8":
		return types.Typ[types.Uint8]
	case "uint32":
		return types.Typ[types.Uint32]
	case "bool":
		return types.Typ[types.Bool]
	case "string":
		return types.Typ[types.String]
	case "error":
		return types.Universe.Lookup("error").Type()
	}
	if k := strings.Index(s, "."); k >= 0 {
		alias, name := s[:k], s[k+1:]
		p := env.e.importByAlias(env.cf, env.pkg, alias)
		if p == nil {
			specFail("unknown package alias %q in type %q", alias, s)
		}
		obj := p.Scope().Lookup(name)
		if obj == nil {
			specFail("unknown type %q", s)
		}
		return obj.Type()
	}
	if env.pkg != nil {
		if obj := env.pkg.Types.Scope().Lookup(s); obj != nil {
			return obj.Type()
		}
	}
	specFail("unknown type %q", s)
	return nil
}

func (e *Engine) importByAlias(cf *ContractFile, pkg *packages.Package, alias string) *types.Package {
	if cf != nil {
		if path, ok := cf.Imports[alias]; ok {
			if p := e.findTypesPkg(path); p != nil {
				return p
			}
		}
	}
	if pkg != nil {
		for _, f := range pkg.Syntax {
			for _, imp := range f.Imports {
				path, _ := strconv.Unquote(imp.Path.Value)
				ip := pkg.Imports[path]
				if ip == nil {
					continue
				}
				name := ip.Types.Name()
				if imp.Name != nil {
					name = imp.Name.Name
				}
				if name == alias {
					return ip.Types
				}
			}
		}
	}
	// global fallbacks by well-known alias
	for path, a := range pkgAlias {
		if a == alias {
			if p := e.findTypesPkg(path); p != nil {
				return p
			}
		}
	}
	return nil
}

func (e *Engine) findTypesPkg(path string) *types.Package {
	if p, ok := e.pkgs[path]; ok {
		return p.Types
	}
	var found *types.Package
	seen := map[string]bool{}
	var walk func(p *packages.Package)
	walk = func(p *packages.Package) {
		if found != nil || seen[p.PkgPath] {
			return
		}
		seen[p.PkgPath] = true
		if p.PkgPath == path {
			found = p.Types
			return
		}
		for _, ip := range p.Imports {
			walk(ip)
		}
	}
	for _, p := range e.pkgs {
		walk(p)
	}
	return found
}

// ---------------------------------------------------------------- printing

func specString(x SExpr) string {
	switch n := x.(type) {
	case *SInt:
		return n.V
	case *SStr:
		return "\"" + n.V + "\""
	case *SIdent:
		return n.Name
	case *SUnary:
		return n.Op + specString(n.X)
	case *SBinary:
		return "(" + specString(n.L) + " " + n.Op + " " + specString(n.R) + ")"
	case *SSel:
		return specString(n.X) + "." + n.Name
	case *SIndex:
		return specString(n.X) + "[" + specString(n.I) + "]"
	case *SCall:
		var as []string
		for _, a := range n.Args {
			as = append(as, specString(a))
		}
		return specString(n.Fun) + "(" + strings.Join(as, ", ") + ")"
	case *SQuant:
		kw := "forall"
		if !n.Forall {
			kw = "exists"
		}
		var bs []string
		for _, b := range n.Vars {
			bs = append(bs, b.Name+" "+b.Type.String())
		}
		return kw + " " + strings.Join(bs, ", ") + " :: " + specString(n.Body)
	}
	return "?"
}

// bytesToStr is string(b) for a []byte value; together with bytesOfStr it
// satisfies string([]byte(s)) == s (declared as an axiom when both are used).
func (e *Engine) bytesToStr(v *Value) string {
	f := e.declFun("sofbytes", []string{"Int", e.leafSorts(v.Sh)[1]}, "Str")
	e.ensureBytesAxiom(e.leafSorts(v.Sh)[1])
	return app(f, v.L[0], v.L[1])
}

func (e *Engine) ensureBytesAxiom(arrSort string) {
	if e.bytesAxiom {
		return
	}
	e.bytesAxiom = true
	e.declFun("sofbytes", []string{"Int", arrSort}, "Str")
	e.declFun("slen", []string{"Str"}, "Int")
	e.declFun("bytes.arr", []string{"Str"}, arrSort)
	e.axiomTerms = append(e.axiomTerms, axiomTerm{name: "string([]byte(s)) == s",
		term: "(forall ((s Str)) (! (= (sofbytes (slen s) (bytes.arr s)) s) :pattern ((bytes.arr s))))", src: "builtin"})
}

func (e *Engine) ensureBoxStrAxiom() {
	e.declFun("box.str", []string{"Str"}, "Int")
	e.declFun("unbox.str", []string{"Int"}, "Str")
	if e.boxStrAxiom {
		return
	}
	e.boxStrAxiom = true
	e.axiomTerms = append(e.axiomTerms, axiomTerm{name: "unbox(box(s)) == s",
		term: "(forall ((s Str)) (! (= (unbox.str (box.str s)) s) :pattern ((box.str s))))", src: "builtin"})
}

// knownName reports whether an identifier is bound in the spec environment (so that a
// package alias is only tried for names that are not variables).
func (env *SpecEnv) knownName(name string) bool {
	if _, ok := env.names[name]; ok {
		return true
	}
	if env.oldNames != nil {
		if _, ok := env.oldNames[name]; ok {
			return true
		}
	}
	if _, ok := env.state().ghost[name]; ok {
		return true
	}
	if env.goLookup != nil {
		if _, ok := env.goLookup(name, env.inOld); ok {
			return true
		}
	}
	_, ok := env.e.consts[name]
	return ok
}
