#!/bin/bash
# Maintenance: re-run every claimed quick check on /repo with --write-baseline (two at a time) and print the summaries.
cd /verif
ids=$(python3 -c "import json;print(' '.join(c['property_id'] for c in json.load(open('MANIFEST.json'))['checks']))")
echo $ids | tr ' ' '\n' | xargs -P 2 -I{} sh -c 'bin/vcheck check --property {} --tier quick --write-baseline 2>&1 | grep -v "^  " | tail -3'
