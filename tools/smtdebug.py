#!/usr/bin/env python3
# Debug helper: given an SMT file of a failed obligation, add quantified assumptions one at a time
# (most goal-related first) until z3 proves it; reports the sufficient subset.  Maintenance tool only.
import sys, subprocess, re
def syms(t): return set(re.findall(r'[A-Za-z_.!$|][A-Za-z0-9_.!$|-]*', t))
s=open(sys.argv[1]).read().split('\n')
tmo=sys.argv[2] if len(sys.argv)>2 else '3'
asserts=[i for i,l in enumerate(s) if l.startswith('(assert')]
goal=[i for i in asserts if s[i].startswith('(assert (not')][-1]
quant=[i for i in asserts if ('forall' in s[i] or 'exists' in s[i]) and i!=goal]
def run(drop):
    open('/tmp/_dbg.smt2','w').write('\n'.join(l for j,l in enumerate(s) if j not in drop))
    r=subprocess.run(['z3','-T:'+tmo,'/tmp/_dbg.smt2'],capture_output=True,text=True).stdout
    for l in r.split('\n'):
        if l.strip() in('sat','unsat','unknown','timeout'): return l.strip()
    return 'other:'+r[:200]
print('all facts:',run(set()))
print('no quantified facts:',run(set(quant)))
gs=syms(s[goal])
order=sorted(quant,key=lambda i:-len(syms(s[i])&gs))
kept=[]
for i in order:
    kept.append(i)
    r=run(set(quant)-set(kept))
    if r=='unsat':
        print('PROVED with',len(kept),'quantified facts')
        # minimise
        for j in list(kept):
            k2=[x for x in kept if x!=j]
            if run(set(quant)-set(k2))=='unsat': kept=k2
        for j in kept: print('  needs line',j+1,':',s[j][:260])
        break
else:
    print('not proved by adding facts greedily')
