#!/bin/bash
# mkmutant.sh <name> <property> <expected obligation substring> <repo file> '<old>=><new>' <note>
# Creates /verif/selftest/mustfail/<name>/{patch.diff,expect.json} from a unique textual replacement in /repo's working tree.
set -e
d=/verif/selftest/mustfail/$1; mkdir -p $d; t=$(mktemp -d)
cp /repo/$4 $t/a; cp /repo/$4 $t/b
python3 - "$5" $t/b <<'EOF'
import sys
old,new=sys.argv[1].split('=>',1)
p=sys.argv[2]; s=open(p).read()
assert s.count(old)==1,(s.count(old),old)
open(p,'w').write(s.replace(old,new))
EOF
diff -u $t/a $t/b | sed "1s|.*|--- a/$4|;2s|.*|+++ b/$4|" > $d/patch.diff || true
python3 - "$2" "$3" "$6" > $d/expect.json <<'EOF'
import json,sys
print(json.dumps({"property":sys.argv[1],"expect_obligation":sys.argv[2],"note":sys.argv[3]}))
EOF
rm -rf $t
