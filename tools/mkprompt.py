#!/usr/bin/env python3
"""Writes the task text for a fresh sub-agent that is to seed a property-breaking change
(maintenance tool).  The text contains only the property (from properties.jsonl), the path of
the agent's own scratch worktree and one-line descriptions of ideas already used for that
property - nothing about how /verif checks anything.

  mkprompt.py <property> <worktree> <out file> [used idea] [used idea] ...
"""
import json, sys
prop, wt, out = sys.argv[1:4]
used = sys.argv[4:]
P = None
for line in open('/verif/properties.jsonl'):
    d = json.loads(line)
    if d['id'] == prop:
        P = d
assert P, prop
q = P.get('quantifier', {})
text = f"""You are helping to evaluate how well a project's quality checks notice semantic regressions.

Your scratch area is {wt}, a git worktree of a Go repository (pingcap/advanced-statefulset: a
Kubernetes controller forked from the upstream StatefulSet controller, which can scale in at arbitrary
ordinals through a delete-slots annotation). Work ONLY inside {wt}. Do not read or write anything
under /repo or /verif, and do not look for other checkouts of this project.

Every shell call that runs go must begin with:
  export GOFLAGS=-mod=mod GOPROXY=off GOSUMDB=off GOTOOLCHAIN=local
There is no network. The repository has two Go modules: the root (controller, ./pkg/...) and
./client (API types and client helpers, run its tests with `cd client && go test ./...`).

THE PROPERTY ({prop}): {P['title']}
{P['statement']}
It is meant to hold {q.get('text', 'for all inputs')}.

YOUR TASK: make ONE small, realistic change to the NON-TEST source code that breaks this property -
the kind of change a well-meaning developer could make (a refactoring, an "optimisation", a ported
upstream tidy-up, an off-by-one, a dropped guard) - such that
  1. everything still compiles: `go build ./...` in the root and in client;
  2. the existing tests still pass, unedited:
       go test -vet=off -count=1 ./pkg/...        (in the root)
       (cd client && go test -vet=off -count=1 ./...)
  3. you can demonstrate the breakage with a NEW test file of your own (a "demo"): it fails with your
     change and passes without it. The demo must test the property as stated above, on the real code,
     and must not depend on timing luck.
Do not edit existing test files, go.mod or go.sum. Do not add build tags. Keep the change to a few
lines in one or two functions. Prefer a change that only shows up for inputs, schedules or histories
the existing tests do not exercise.
"""
if used:
    text += "\nEarlier exercises already used these ideas, so pick a DIFFERENT one (another clause of the property, another place in the code):\n"
    for u in used:
        text += f"  - {u}\n"
text += f"""
DELIVERABLES, in {wt}/SEEDED/ (create the directory):
  patch.diff    - `git diff` of the source change only (no test files), applying with `git apply` at the
                  repository root of a clean checkout;
  demo_test.go  - your demo test, with a first-line comment naming the path it must be copied to
                  (for example pkg/controller/statefulset/zz_seeded_demo_test.go); test function
                  names must start with TestSeeded;
  README.md     - what you changed, which clause of the property it breaks and why, what it takes to
                  show up, and the exact commands you ran with their results.
Leave the worktree with your source change applied and the demo test removed from the package
directories (it lives only in SEEDED/). Before you finish, actually run and report: the existing
suite with the change (must pass), the demo with the change (must fail), the demo without the
change (must pass; `git apply -R SEEDED/patch.diff`, then re-apply).
"""
open(out, 'w').write(text)
print(out, len(text))
