#!/usr/bin/env python3
"""Must-fail / must-pass corpus for the checks (run on every engine or contract change).

  selftest.py [--property Cxx] [--only name] [--jobs N]

For every /verif/selftest/mustfail/<name>/{patch.diff,expect.json} a scratch copy of
/repo's working tree is made under $TMPDIR, the patch applied, and the quick check of
expect.property run with --repo <scratch>.  The check must exit 1, print a VIOLATION line,
and a failed obligation must contain expect.expect_obligation.  For every
/verif/selftest/neutral/<name>/ (behaviour-preserving edits) the listed checks must exit 0.
The scratch copy is removed straight afterwards.  Exit 0 iff every expectation is met.
"""
import json, os, subprocess, sys, tempfile, shutil, glob, argparse, concurrent.futures

ap = argparse.ArgumentParser()
ap.add_argument("--property")
ap.add_argument("--only")
ap.add_argument("--jobs", type=int, default=3)
ap.add_argument("--repo", default=os.environ.get("VP_RUN_REPO", "/repo"))
args = ap.parse_args()
V = os.path.dirname(os.path.dirname(os.path.abspath(__file__)))
# one snapshot of the repository and of /verif for the whole run, so that both can be edited meanwhile
SNAP = tempfile.mkdtemp(prefix='vst-snap-')


subprocess.run(['rsync', '-a', '--exclude', '.git', args.repo + '/', SNAP + '/repo/'], check=True)
subprocess.run(['rsync', '-a', '--exclude', '.git', '--exclude', 'out', '--exclude', 'replays', '--exclude', 'seeded', '--exclude', '.cache', V + '/', SNAP + '/verif/'], check=True)
args.repo = SNAP + '/repo'
RUNV = SNAP + '/verif'
os.makedirs(V + '/.cache', exist_ok=True)
os.symlink(V + '/.cache', RUNV + '/.cache')  # proofs are keyed by the query text: sharing the cache is safe and saves most of the time


def scratch(patch):
    d = tempfile.mkdtemp(prefix="vst-")
    subprocess.run(["rsync", "-a", "--exclude", ".git", args.repo + "/", d + "/"], check=True)
    r = subprocess.run(["patch", "-p1", "-s", "-d", d, "-i", patch], capture_output=True, text=True)
    if r.returncode != 0:
        shutil.rmtree(d)
        return None, r.stdout + r.stderr
    return d, ""


def run_check(prop, repo):
    r = subprocess.run([RUNV + "/bin/vcheck", "check", "--property", prop, "--tier", "quick", "--repo", repo, "--no-evidence", "--discard-queries", "--verif", RUNV],
                       capture_output=True, text=True, cwd=RUNV)
    return r.returncode, r.stdout + r.stderr


def mustfail(d):
    name = os.path.basename(d)
    exp = json.load(open(d + "/expect.json"))
    repo, err = scratch(d + "/patch.diff")
    if repo is None:
        return name, None, "skipped: the stored change does not apply to this tree"
    try:
        code, out = run_check(exp["property"], repo)
    finally:
        shutil.rmtree(repo, ignore_errors=True)
    viol = [l for l in out.splitlines() if l.startswith("VIOLATION")]
    failed = [l for l in out.splitlines() if l.startswith("FAILED") or l.startswith("  failed") or "not discharged" in l or l.startswith("VIOLATION") or l.startswith("obligation")]
    names = []
    for l in viol:
        for w in l.split():
            if w.startswith("replay=") and os.path.exists(w[7:]):
                try:
                    names.append(json.load(open(w[7:])).get("obligation", ""))
                except Exception:
                    pass
    hit = any(exp["expect_obligation"] in n for n in names) or exp["expect_obligation"] in out
    ok = code == 1 and viol and hit
    why = "exit=%d violation=%s expected-obligation-%s" % (code, "yes" if viol else "no", "named" if hit else "NOT named (%s; got %s)" % (exp["expect_obligation"], names))
    return name, bool(ok), why


def neutral(d):
    name = os.path.basename(d)
    exp = json.load(open(d + "/expect.json"))
    repo, err = scratch(d + "/patch.diff")
    if repo is None:
        return name, None, "skipped: the stored change does not apply to this tree"
    bad = []
    try:
        for p in exp["properties"]:
            code, out = run_check(p, repo)
            if code != 0:
                bad.append("%s exit=%d %s" % (p, code, [l for l in out.splitlines() if l.startswith("VIOLATION")][:1]))
    finally:
        shutil.rmtree(repo, ignore_errors=True)
    return name, not bad, "; ".join(bad) or "all quiet"


jobs = []
for d in sorted(glob.glob(V + "/selftest/mustfail/*")):
    if not os.path.exists(d + "/expect.json"):
        continue
    exp = json.load(open(d + "/expect.json"))
    if args.property and exp["property"] != args.property:
        continue
    if args.only and args.only != os.path.basename(d):
        continue
    jobs.append((mustfail, d))
for d in sorted(glob.glob(V + "/selftest/neutral/*")):
    if not os.path.exists(d + "/expect.json"):
        continue
    exp = json.load(open(d + "/expect.json"))
    if args.property and args.property not in exp["properties"]:
        continue
    if args.only and args.only != os.path.basename(d):
        continue
    jobs.append((neutral, d))
bad = 0
with concurrent.futures.ThreadPoolExecutor(max_workers=args.jobs) as ex:
    for name, ok, why in ex.map(lambda j: j[0](j[1]), jobs):
        print("%-8s %-32s %s" % ("skipped" if ok is None else ("ok" if ok else "BROKEN"), name, why))
        if ok is not None and not ok:
            bad += 1
shutil.rmtree(SNAP, ignore_errors=True)
print("selftest: %d cases, %d broken" % (len(jobs), bad))
sys.exit(1 if bad else 0)
