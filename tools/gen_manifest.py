#!/usr/bin/env python3
# Regenerates /verif/MANIFEST.json from the table below (maintenance tool; not used by the checks).
import json, subprocess

TECH = "contract-based deductive verification: own VC generator over the typed Go AST (contracts in build-tag-guarded comment files), obligations discharged by z3 4.8.12 / z3 5.1.0 / cvc5 1.0"
RECON_NOTE = ("Assumed (listed in the evidence): contracts of ApplyRevision, newVersionedStatefulSetPod, getParentNameAndOrdinal, IsPodReady, sort.Sort, DeepCopy, sets.Int32; "
              "snapshot validity (distinct pods and ordinals, non-empty phase); profile 'defaulted' (strategy RollingUpdate|OnDelete); int/int64 arithmetic mathematical; termination not proved; the VC generator and solvers.")

CLAIMS = {
 "C01": ("Contracts on the six client helpers state the property verbatim (membership = the r smallest non-negative non-slots, cardinality = r, max/min agree); loop invariants and the counting lemmas (proved by induction as separate obligations) are discharged for all replicas and all slot sets, with no bound. The controller half (creates only at those ordinals) is the C01/C04-tagged precondition of CreateStatefulPod proved at the call site in updateStatefulSet.",
         "Assumed: contracts of sets.Int32 and of encoding/json on []int32; metav1.Object accessors are field reads; explicit requires replicas + |slots| <= MaxInt32; the VC generator and the solvers.", "6 C01"),
 "C03": ("The property is the precondition of StatefulPodControlInterface.DeleteStatefulPod (condemned, or failed/succeeded and replaced, or outdated at/above the partition under RollingUpdate); each of the three call sites in updateStatefulSet is an obligation proved from loop invariants over a symbolic snapshot, replica count, slot set and partition; 'immediately replaces' is a postcondition over ghost state.", RECON_NOTE, "6 C03"),
 "C04": ("Preconditions of CreateStatefulPod (ordinal desired, not in the snapshot, vacant or just replaced, not twice, set not deleting) proved at the single call site of updateStatefulSet for all snapshots and slot sets.", RECON_NOTE, "6 C04"),
 "C05": ("OrderedReady clauses (at most one ordinal acted on, predecessors healthy before a create, scale-in only from the top with every desired pod ready, update only when nothing is left to scale in) are preconditions of the pod-control interface and a postcondition of updateStatefulSet, proved from inductive loop invariants.", RECON_NOTE, "6 C05"),
 "C07": ("Update deletes are justified only at/above the partition with every higher desired ordinal updated and healthy, at most one per reconcile, never under OnDelete; proved at the call site from the update-walk invariant. The revision label of re-created pods is carried by the (currently assumed) contract of newVersionedStatefulSetPod.", RECON_NOTE, "6 C07"),
 "C09": ("Error-origin and error-propagation clauses along the whole reconcile path (processNextWorkItem -> sync -> adoptOrphanRevisions / getPodsForStatefulSet / ClaimPods / ClaimObject -> syncStatefulSet -> UpdateStatefulSet -> ListRevisions / getStatefulSetRevisions / updateStatefulSet / updateStatefulSetStatus / truncateHistory): a returned error stems from a failed API or pod-control call or from a documented local error (no self-inflicted failure); pod-control, status and revision-delete failures are returned, never swallowed; a failed sync is re-queued with rate limiting and not forgotten, a successful one is forgotten; Done is always called. Safety of partial work holds by construction: C03-C07, C10, C11, C13 are preconditions proved from the state before each call, and the reconcile keeps nothing in memory between runs.",
         "Tolerated by contract (the code's documented intent): NotFound/Invalid on the release patch, NotFound on adoption, conflicts inside RetryOnConflict. 'Reaches the same final state as a run without failures' is a liveness statement (see C02) and is not decided. Assumed contracts: typed clients, listers, work queue, CanAdopt; function literals are opaque values.", "6 C09"),
 "C10": ("ClaimObject is proved against contracts of its three function parameters: adoption only for an orphan that matches, is not terminating and whose controller is not being deleted; release only for an object owned by this controller's UID that stopped matching; objects owned by another UID are ignored without any call. AdoptPod issues its patch only after CanAdopt (the uncached re-read) returned nil; ReleasePod only patches (a delete call there is a false precondition). ListRevisions returns only revisions owned by the set or orphaned; revision adoption requires the fresh read (same UID, not deleted) and only orphans are adopted. Every store in the functions under contract is checked against the modifies clause (frame): objects that existed at entry - cache objects - are written only where declared (pod updates require a copy made in this reconcile; the set is written only through UpdateStatus on a copy).",
         "The bodies of the function literals passed to ClaimObject / RecheckDeletionTimestamp (selector match + isMemberOf filter, fresh GET with UID comparison) are opaque to the translator: their behaviour is the assumed funcparam contract. CanAdopt (sync.Once) assumed. Typed client contracts assumed.", "6 C10"),
 "C11": ("sync is proved to issue no write at all and return nil when the cached set carries paused-reconcile=\"true\" (the gate precedes every effectful call; GetPausedReconcile is proved equal to the annotation test), and, for a set with a deletion timestamp, to leave the pod/claim write counter, the revision adoption counter and the adopt/release counters unchanged through adoptOrphanRevisions, getPodsForStatefulSet/ClaimPods/ClaimObject, UpdateStatefulSet and updateStatefulSet; the pod-control interface additionally requires 'not deleting' at every create/update/delete. A paused reconcile changes neither the API nor controller memory (frame), so un-pausing resumes from a state reachable without the pause.",
         "'Converges to the same result as if never paused' beyond that frame argument is liveness (C02), not decided. Assumed contracts as for C09/C10.", "6 C11"),
 "C12": ("Postconditions of updateStatefulSet proved by exact ghost accounting over the snapshot (census sets, live/deleted sets, created counters, counting lemmas): on every error-free exit 0 <= ready, current, updated <= replicas; observedGeneration and the revision names are the reconciled ones; when nothing was created or deleted the four counters are the exact census of the snapshot. (completeRollingUpdate / status writer clauses: see level_note.)",
         "Not yet under contract: completeRollingUpdate, inconsistentStatus, the status updater (currentRevision promotion and observedGeneration monotonicity clauses of the property). " + RECON_NOTE, "6 C12"),
 "C13": ("The property is the precondition of the ControllerRevision Delete call in truncateHistory (belongs to this set, not current/update/pod-referenced, more than the limit unused, oldest first, each once) plus its postcondition (at most limit unused remain); ListRevisions is proved to return each revision once and only revisions owned by this set or orphaned. Index witnesses (ghost) and counting lemmas make the filter/trim loops inductive.",
         "Assumed: typed ControllerRevision client contracts, GetControllerOfNoCopy; revisionHistoryLimit present and >= 0 (CRD). The composition ListRevisions -> sort -> truncateHistory inside UpdateStatefulSet is not yet under contract (sortedness is not needed for the safety clauses; 'oldest first' is relative to the order truncateHistory is given).", "6 C13"),
 "C14": ("Postconditions of updateStatefulSet under the Parallel policy: every vacant desired ordinal was created at and every non-terminating condemned snapshot pod was deleted on error-free exits; at most one update delete.", RECON_NOTE, "6 C14"),
 "C16": ("Postconditions of addPod, updatePod, deletePod (incl. tombstones), enqueueStatefulSet, resolveControllerRef, getStatefulSetsForPod over a ghost model of the work queue and an abstract lister content: a pod whose controller reference resolves (kind, name, UID) enqueues exactly that set; on an owner change the old and the new owner are both enqueued; an orphan enqueues every set of its namespace whose selector matches (completeness proved through the lister expansion GetPodStatefulSets, whose loop is under contract); equal resource versions enqueue nothing; nothing else is enqueued. processNextWorkItem: failure -> AddRateLimited and no Forget, success -> Forget, Done always.",
         "Assumed: informer payload types, key function, listers do not fail, selector predicates uninterpreted, reflect.DeepEqual on owner references. The set-informer handler literals (wiring in NewStatefulSetController) are not under contract; they call enqueueStatefulSet, which is.", "6 C16"),
 "C17": ("Upgrade is verified against a protocol written as caller-specific preconditions of the API calls it makes, over ghost state (which revisions have been relabelled, whether the Advanced StatefulSet object and its status have been written, whether any call failed): every revision update carries the marker label with the set's name and none of the selector's keys (inner-loop invariant over the visited keys); the create/update of the Advanced StatefulSet requires every listed revision relabelled, the built-in's name and the converted spec, and an empty resource version on create; UpdateStatus requires the object written and the converted status; the built-in delete requires both written, every listed revision relabelled and propagation policy Orphan. Postconditions: any failed call makes Upgrade return an error (fail-stop is then structural: every error path returns), success implies object and status written.",
         "Assumed: the client contracts themselves, FromBuiltinStatefulSet (JSON round trip, see C19), label maps present on listed revisions. 'Never touches pods or claims' holds by construction of the check: no pod/claim client call has a contract in this package, so adding one cannot be translated and is reported.", "6 C17"),
 "C20": ("Sequential relay contract of hijackWatch.receive: each channel operation is a call of an assumed contract over ghost state (events in, events out, the event received last); the send's preconditions state that exactly the event just received is handed on, with the same type and either the built-in conversion of the received StatefulSet or - for any other payload such as an error status - the very same object; the receive's precondition states that nothing is pending. By the loop invariant (out == in) this gives the same events, in order, once each. No panic for an arbitrary payload (safety obligations on the type assertion path; this failed on the pinned tree = F8, fixed). On exit: result channel closed exactly once, source stopped exactly once, Stop idempotent.",
         "PARTIAL by nature of the family: 'for every interleaving of event arrival, consumption and Stop' and 'no goroutine is left behind' are statements about schedules of several goroutines and a blocking send; contracts over one sequential procedure cannot express them, and they are NOT decided (by reading, the relay can block forever on its send if the consumer stops reading after Stop(); not reported by any check). Assumed: the channel contracts, ToBuiltinStatefulSet never failing (C19).", "6 C20"),
 "C15": ("Zero-annotation safety sweep: every dereference, index, slice expression, map write, type assertion, make length, conversion and int32 arithmetic in the functions under contract yields an obligation, proved under the weak 'crd' profile (only what the CRD schema guarantees; strategy/policy strings and the partition arbitrary, pod populations arbitrary including ordinal MaxInt32).",
         "Currently covers updateStatefulSet and the pod predicates; callees with assumed contracts (ApplyRevision, newVersionedStatefulSetPod, library code) are assumed panic-free. " + RECON_NOTE, "6 C15"),
}

NA = {
 "C18": "byte-equality of two reflection-driven serializers (this controller's getPatch vs the built-in controller's); neither codec is expressible as a contract within reach and the upstream reference implementation is not available offline (DESIGN.md section 7)",
}
PENDING = "not yet under contract in this snapshot of the framework (work in progress; see DESIGN.md section 10 for the order of work)"

props = [json.loads(l) for l in open('/verif/properties.jsonl')]
checks = []
for pid in sorted(CLAIMS):
    text, note, ref = CLAIMS[pid]
    checks.append({
        "property_id": pid,
        "quick_cmd": f"bin/vcheck check --property {pid} --tier quick",
        "thorough_cmd": f"bin/vcheck check --property {pid} --tier thorough",
        "evidence_file": f"/verif/evidence/{pid}.json",
        "replay_cmd_template": "cat {path}",
        "engine": "vcheck",
        "level_claimed": {"category": "proof", "text": text, "design_ref": "DESIGN.md section " + ref},
        "level_note": note,
        "technique": TECH,
    })
na = []
for p in props:
    if p["id"] in CLAIMS:
        continue
    na.append({"property_id": p["id"], "reason": NA.get(p["id"], PENDING)})
commits = subprocess.run(["git", "-C", "/repo", "log", "--format=%h %s"], capture_output=True, text=True).stdout.strip().split("\n")
hook_commits = [c.split()[0] for c in commits if c.split(" ", 1)[1].startswith("verif:")]
fix_commits = [c for c in commits if c.split(" ", 1)[1].startswith("fix:")]
m = {"version": 1,
     "setup_cmd": "cd /verif/engine && GOFLAGS=-mod=vendor GOPROXY=off GOSUMDB=off GOTOOLCHAIN=local go build -o /verif/bin/vcheck .",
     "hooks": {"guard": "verif",
               "enable": "go/packages loads /repo with -tags verif; the guarded files are comment-only contract files (zz_contracts_verif.go)",
               "baseline_off_cmd": "for m in . client; do (cd /repo/$m && GOFLAGS=-mod=mod GOPROXY=off GOSUMDB=off go test -vet=off -count=1 -timeout 25m $(go list ./... | grep -v /test/e2e)); done",
               "source_commits": hook_commits, "add_only": True},
     "engines": [{"name": "vcheck", "path": "/verif/engine", "serves_properties": sorted(CLAIMS),
                  "kind_free_text": "verification-condition generator for a subset of Go (typed AST via go/packages) with Gobra-style //@ contracts in build-tag-guarded comment files; obligations raced on z3 4.8.12, z3 5.1.0 and cvc5 1.0; bounded replay harnesses (go test -overlay) only to find a concrete failing input after an obligation failed"}],
     "checks": checks,
     "not_applicable": sorted(na, key=lambda x: x["property_id"]),
     "notes": "Fix commits in /repo: " + "; ".join(fix_commits) + ". Known findings and fixes: /verif/known_findings.json."}
json.dump(m, open('/verif/MANIFEST.json', 'w'), indent=1)
print("claimed:", sorted(CLAIMS), "hooks:", hook_commits)
