#!/usr/bin/env python3
"""Stability pass (maintenance tool): runs every claimed quick check several times with the
cache off and different solver seeds, optionally under CPU load, and lists every run that did
not exit 0 together with the obligations that failed.  A check that is right but flaky is a
false alarm waiting to happen; the obligations listed here are the ones to split or to help.

  stability.py [--seeds 1,2,3] [--props C03,C12] [--jobs 2] [--load N]
"""
import argparse, json, os, subprocess, sys, concurrent.futures, time
V = os.path.dirname(os.path.dirname(os.path.abspath(__file__)))
ap = argparse.ArgumentParser()
ap.add_argument('--seeds', default='1,2,3')
ap.add_argument('--props')
ap.add_argument('--jobs', type=int, default=2)
ap.add_argument('--load', type=int, default=0, help='number of busy-loop processes to run meanwhile')
args = ap.parse_args()
man = json.load(open(V + '/MANIFEST.json'))
props = [c['property_id'] for c in man['checks']]
if args.props:
    props = args.props.split(',')
burn = [subprocess.Popen([sys.executable, '-c', 'while True: pass']) for _ in range(args.load)]


def one(job):
    p, seed = job
    env = dict(os.environ, VERIF_SEED=str(seed), VERIF_NOCACHE='1')
    t = time.time()
    r = subprocess.run([V + '/bin/vcheck', 'check', '--property', p, '--tier', 'quick', '--no-evidence', '--discard-queries'],
                       capture_output=True, text=True, cwd=V, env=env)
    bad = []
    for l in r.stdout.splitlines():
        if l.startswith('VIOLATION'):
            path = l.split('replay=')[1].split()[0]
            try:
                bad.append(json.load(open(path)).get('obligation', path))
            except Exception:
                bad.append(path)
    return p, seed, r.returncode, time.time() - t, bad


try:
    jobs = [(p, int(s)) for s in args.seeds.split(',') for p in props]
    nbad = 0
    with concurrent.futures.ThreadPoolExecutor(max_workers=args.jobs) as ex:
        for p, seed, code, secs, bad in ex.map(one, jobs):
            flag = 'ok ' if code == 0 else 'BAD'
            print('%s %s seed=%d exit=%d %.0fs %s' % (flag, p, seed, code, secs, '; '.join(bad)), flush=True)
            nbad += code != 0
    print('stability: %d runs, %d not clean' % (len(jobs), nbad))
finally:
    for b in burn:
        b.kill()
sys.exit(1 if nbad else 0)
