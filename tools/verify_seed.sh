#!/bin/bash
# Independent confirmation of a seeded change produced by a sub-agent.
#   verify_seed.sh <dir with patch.diff demo_test.go> <seed id> <property> <package dir of demo relative to repo>
# In a fresh scratch worktree of /repo HEAD: (1) demo passes without the change,
# (2) patch applies, builds, existing tests pass, (3) demo fails with the change.
# On success stores /verif/seeded/<id>/{patch.diff,demo_test.go,meta.json}.
set -u
SRC=$1; ID=$2; PROP=$3; PKG=${4:-pkg/controller/statefulset}
export GOFLAGS=-mod=mod GOPROXY=off GOSUMDB=off GOTOOLCHAIN=local
WT=/tmp/vs-$ID
git -C /repo worktree remove --force $WT >/dev/null 2>&1
git -C /repo worktree add --detach $WT HEAD >/dev/null 2>&1 || { echo "worktree failed"; exit 2; }
cleanup() { git -C /repo worktree remove --force $WT >/dev/null 2>&1; rm -rf $WT; }
trap cleanup EXIT
MODDIR=$WT
case $PKG in client/*) MODDIR=$WT/client; RELPKG=./${PKG#client/};; *) RELPKG=./$PKG;; esac
DEMO=$WT/$PKG/zz_seeded_demo_test.go
cp $SRC/demo_test.go $DEMO
runpat=$(grep -o 'func Test[A-Za-z0-9_]*' $SRC/demo_test.go | sed 's/func //' | paste -sd'|')
( cd $MODDIR && go test -vet=off -count=1 -timeout 10m -run "^($runpat)\$" $RELPKG ) > /tmp/vs-$ID.clean.log 2>&1
clean=$?
rm $DEMO
git -C $WT apply $SRC/patch.diff || { echo "patch does not apply to HEAD"; exit 1; }
( cd $WT && go build ./... && cd client && go build ./... ) > /tmp/vs-$ID.build.log 2>&1 || { echo "does not build"; cat /tmp/vs-$ID.build.log; exit 1; }
( cd $WT && go test -vet=off -count=1 -timeout 25m ./pkg/... ./cmd/... ./test/integration/... && cd client && go test -vet=off -count=1 -timeout 25m ./... ) > /tmp/vs-$ID.suite.log 2>&1
suite=$?
cp $SRC/demo_test.go $DEMO
( cd $MODDIR && go test -vet=off -count=1 -timeout 10m -run "^($runpat)\$" $RELPKG ) > /tmp/vs-$ID.seeded.log 2>&1
seeded=$?
echo "demo-without-change exit=$clean  suite-with-change exit=$suite  demo-with-change exit=$seeded"
if [ $clean -eq 0 ] && [ $suite -eq 0 ] && [ $seeded -ne 0 ]; then
  mkdir -p /verif/seeded/$ID
  cp $SRC/patch.diff /verif/seeded/$ID/patch.diff
  cp $SRC/demo_test.go /verif/seeded/$ID/demo_test.go
  [ -f $SRC/README.md ] && cp $SRC/README.md /verif/seeded/$ID/AGENT_README.md
  files=$(grep '^+++ b/' $SRC/patch.diff | sed 's|+++ b/||' | paste -sd, )
  python3 - "$ID" "$PROP" "$PKG" "$files" "$(git -C /repo rev-parse --short HEAD)" <<'EOF'
import json,sys
id_,prop,pkg,files,head=sys.argv[1:6]
json.dump({"id":id_,"property":prop,"origin":"fresh sub-agent given only the property text and a scratch worktree","files":files.split(","),
 "demo":{"file":"demo_test.go","place_at":pkg+"/zz_seeded_demo_test.go"},
 "confirmed":{"at_repo_commit":head,"demo_without_change":"pass","existing_suite_with_change":"pass","demo_with_change":"fail"}},
 open("/verif/seeded/%s/meta.json"%id_,"w"),indent=1)
EOF
  echo "KEPT $ID"
  rm -f /tmp/vs-$ID.*.log
else
  echo "REJECTED $ID (logs /tmp/vs-$ID.*.log)"
fi
