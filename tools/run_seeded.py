#!/usr/bin/env python3
"""Detection matrix for the seeded changes (maintenance tool, not a registered check).

  run_seeded.py [--jobs N] [seed ids...]

For each /verif/seeded/<id>/patch.diff a scratch copy of /repo's working tree is made under
$TMPDIR, the patch applied, and the quick check of every claimed property run with
--repo <scratch> (no evidence written).  Records in <id>/detection.json which checks report
a violation and with which obligations, then removes the scratch copy.
"""
import json, subprocess, sys, os, glob, tempfile, shutil, argparse, concurrent.futures
VERIF = os.environ.get('VERIF_DIR', '/verif')
REPO = os.environ.get('VP_RUN_REPO') or os.environ.get('REPO_DIR', '/repo')
ap = argparse.ArgumentParser()
ap.add_argument('--jobs', type=int, default=2)
ap.add_argument('--props')
ap.add_argument('--own', action='store_true', help='run only the check of the property the seed was written against (meta.json)')
ap.add_argument('seeds', nargs='*')
args = ap.parse_args()
man = json.load(open(VERIF + '/MANIFEST.json'))
props = [c['property_id'] for c in man['checks']]
if args.props:
    props = args.props.split(',')
# one snapshot of the repository and of /verif for the whole run, so that both can be edited meanwhile
HEAD = subprocess.run(['git', '-C', REPO, 'rev-parse', '--short', 'HEAD'], capture_output=True, text=True).stdout.strip()
SNAP = tempfile.mkdtemp(prefix='vsd-snap-')
subprocess.run(['rsync', '-a', '--exclude', '.git', REPO + '/', SNAP + '/repo/'], check=True)
subprocess.run(['rsync', '-a', '--exclude', '.git', '--exclude', 'out', '--exclude', 'replays', '--exclude', 'seeded', '--exclude', '.cache', VERIF + '/', SNAP + '/verif/'], check=True)
REPO = SNAP + '/repo'
RUNV = SNAP + '/verif'
os.makedirs(VERIF + '/.cache', exist_ok=True)
os.symlink(VERIF + '/.cache', RUNV + '/.cache')  # proofs are keyed by the query text: sharing the cache is safe and saves most of the time
dirs = sorted(glob.glob(VERIF + '/seeded/*/')) if not args.seeds else [VERIF + '/seeded/%s/' % a for a in args.seeds]


def one(d):
    name = os.path.basename(d.rstrip('/'))
    scratch = tempfile.mkdtemp(prefix='vsd-')
    try:
        subprocess.run(['rsync', '-a', '--exclude', '.git', REPO + '/', scratch + '/'], check=True)
        r = subprocess.run(['patch', '-p1', '-s', '-d', scratch, '-i', d + 'patch.diff'], capture_output=True, text=True)
        if r.returncode != 0:
            return name, None, 'PATCH DOES NOT APPLY ' + (r.stdout + r.stderr)[:300]
        flagged = {}
        myprops = props
        if args.own:
            myprops = [json.load(open(d + 'meta.json'))['property']]
        for p in myprops:
            out = subprocess.run([RUNV + '/bin/vcheck', 'check', '--property', p, '--tier', 'quick', '--no-evidence', '--discard-queries',
                                  '--repo', scratch, '--verif', RUNV], capture_output=True, text=True, cwd=RUNV)
            viol = [l for l in out.stdout.split('\n') if l.startswith('VIOLATION')]
            if out.returncode == 1:
                items = []
                for v in viol:
                    path = v.split('replay=')[1].split()[0]
                    ob = os.path.basename(path)
                    try:
                        ob = json.load(open(path)).get('obligation', ob)
                    except Exception:
                        pass
                    items.append(ob + (' (no input)' if v.endswith('no-failing-input-found') else ' (input reproduced)'))
                flagged[p] = items
            elif out.returncode != 0:
                flagged[p] = ['ENGINE EXIT %d: %s' % (out.returncode, (out.stderr or out.stdout)[-300:])]
        return name, flagged, ''
    finally:
        shutil.rmtree(scratch, ignore_errors=True)


with concurrent.futures.ThreadPoolExecutor(max_workers=args.jobs) as ex:
    for name, flagged, err in ex.map(one, dirs):
        if flagged is None:
            print('==', name, err)
            continue
        print('==', name, 'flagged by:', sorted(flagged), flush=True)
        for p, v in sorted(flagged.items()):
            for x in v[:6]:
                print('    ', p, x)
        head = HEAD
        if not args.own:
            json.dump({'repo_commit': head, 'properties_checked': props, 'flagged': flagged}, open(VERIF + '/seeded/' + name + '/detection.json', 'w'), indent=1)
        else:
            own = json.load(open(VERIF + '/seeded/' + name + '/meta.json'))['property']
            json.dump({'repo_commit': head, 'properties_checked': [own], 'flagged': flagged}, open(VERIF + '/seeded/' + name + '/detection_own.json', 'w'), indent=1)
shutil.rmtree(SNAP, ignore_errors=True)
