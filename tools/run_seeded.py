#!/usr/bin/env python3
# Applies each seeded change under /verif/seeded/*/patch.diff to /repo, runs the quick checks of the
# claimed properties, records which checks report a violation, and reverts /repo.  Maintenance tool.
import json, subprocess, sys, os, glob
VERIF = os.environ.get('VERIF_DIR', '/verif')
REPO = os.environ.get('VP_RUN_REPO') or os.environ.get('REPO_DIR', '/repo')
if not os.path.exists(VERIF + '/bin/vcheck'):
    subprocess.run('cd %s/engine && GOFLAGS=-mod=vendor GOPROXY=off GOSUMDB=off GOTOOLCHAIN=local go build -o %s/bin/vcheck .' % (VERIF, VERIF), shell=True, check=True)
man = json.load(open(VERIF + '/MANIFEST.json'))
props = [c['property_id'] for c in man['checks']]
dirs = sorted(glob.glob(VERIF + '/seeded/*/')) if len(sys.argv) < 2 else [VERIF + '/seeded/%s/' % a for a in sys.argv[1:]]
only = os.environ.get('ONLY_PROPS')
if only: props = only.split(',')
for d in dirs:
    name = os.path.basename(d.rstrip('/'))
    st = subprocess.run(['git', '-C', REPO, 'status', '--porcelain'], capture_output=True, text=True).stdout.strip()
    if st:
        print('refusing: /repo is dirty:', st); sys.exit(1)
    r = subprocess.run(['git', '-C', REPO, 'apply', '--3way', d + 'patch.diff'], capture_output=True, text=True)
    if r.returncode != 0:
        print(name, 'PATCH DOES NOT APPLY', r.stderr[:300]); subprocess.run(['git','-C',REPO,'checkout','--','.']); continue
    flagged = {}
    try:
        for p in props:
            out = subprocess.run([VERIF + '/bin/vcheck', 'check', '--property', p, '--tier', 'quick', '--no-evidence', '--repo', REPO, '--verif', VERIF], capture_output=True, text=True, cwd=VERIF)
            viol = [l for l in out.stdout.split('\n') if l.startswith('VIOLATION')]
            if out.returncode == 1:
                flagged[p] = [v.split('replay=')[1].split('/')[-1][:110] + (' (no input)' if v.endswith('no-failing-input-found') else ' (input reproduced)') for v in viol]
            elif out.returncode != 0:
                flagged[p] = ['ENGINE EXIT %d: %s' % (out.returncode, (out.stderr or out.stdout)[-300:])]
    finally:
        subprocess.run(['git', '-C', REPO, 'reset', '-q', '--hard', 'HEAD'])
    print('==', name, 'flagged by:', sorted(flagged))
    for p, v in sorted(flagged.items()):
        for x in v[:6]: print('    ', p, x)
    json.dump({'flagged': flagged}, open(d + 'detection.json', 'w'), indent=1)
