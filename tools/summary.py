#!/usr/bin/env python3
"""Writes the per-property summary of the last runs (from /verif/evidence/*.json) into DESIGN.md
between SUMMARY-BEGIN / SUMMARY-END (maintenance tool)."""
import json, glob, os, re
V = os.path.dirname(os.path.dirname(os.path.abspath(__file__)))
rows = []
for f in sorted(glob.glob(V + '/evidence/*.json')):
    d = json.load(open(f)); c = d['coverage']
    funcs = c.get('functions_under_contract', [])
    trusted = [a for a in d.get('assumptions', []) if a.startswith('assumed contract')]
    free = [a for a in d.get('assumptions', []) if a.startswith('free (unchecked)')]
    rows.append((d['property_id'], d['tier'], c['obligations'], c['discharged'], len(funcs), len(c.get('lemmas') or []), len(trusted), len(free), round(d['wall_s'])))
out = ['| property | tier of the last run | obligations | discharged | functions x profiles verified | lemmas proved | assumed contracts used | free clauses used | wall s |',
       '|---|---|---|---|---|---|---|---|---|']
for r in rows:
    out.append('| ' + ' | '.join(str(x) for x in r) + ' |')
text = '\n'.join(out)
p = V + '/DESIGN.md'
s = open(p).read()
if 'SUMMARY-BEGIN' in s:
    s = re.sub(r'<!-- SUMMARY-BEGIN -->.*?<!-- SUMMARY-END -->', '<!-- SUMMARY-BEGIN -->\n' + text + '\n<!-- SUMMARY-END -->', s, flags=re.S)
else:
    block = '### 11.8 Size of the checks (from the evidence files of the last runs)\n\n<!-- SUMMARY-BEGIN -->\n' + text + '\n<!-- SUMMARY-END -->\n'
    if '### 11.9' in s:
        s = s.replace('### 11.9', block + '\n### 11.9', 1)
    else:
        s = s.rstrip('\n') + '\n\n' + block
open(p, 'w').write(s)
print(text)
