#!/usr/bin/env python3
"""Writes the seed detection matrix (from /verif/seeded/*/detection.json and meta.json) into
DESIGN.md between the markers SEED-MATRIX-BEGIN / SEED-MATRIX-END (maintenance tool)."""
import json, glob, os, re
V = os.path.dirname(os.path.dirname(os.path.abspath(__file__)))
rows = []
for d in sorted(glob.glob(V + '/seeded/*/')):
    name = os.path.basename(d.rstrip('/'))
    try:
        meta = json.load(open(d + 'meta.json'))
    except Exception:
        continue
    det = {}
    ownonly = False
    if os.path.exists(d + 'detection.json'):
        det = json.load(open(d + 'detection.json'))
    if os.path.exists(d + 'detection_own.json'):
        o = json.load(open(d + 'detection_own.json'))
        if not det:
            det, ownonly = o, True
        else:
            # the own-property run is the more recent one for that property
            det['flagged'] = dict(det.get('flagged', {}))
            det['flagged'].pop(meta['property'], None)
            det['flagged'].update(o.get('flagged', {}))
    what = ''
    readme = d + 'AGENT_README.md'
    files = ', '.join(os.path.basename(f) for f in meta.get('files', []))
    flagged = det.get('flagged', {})
    own = meta['property']
    ownhit = flagged.get(own, [])
    first = ownhit[0] if ownhit else ''
    first = re.sub(r'^(sts|k8s|helper|apps)\.', '', first)
    others = sorted(p for p in flagged if p != own)
    rows.append((name, own, files, 'yes' if ownhit else ('NO' if det else 'not run'), first[:110], ('(other checks not run on this seed)' if ownonly else (', '.join(others) or '-')), det.get('repo_commit', '')))
out = ['| seed | written against | file changed | caught by its own check | first failing obligation (input reproduced / no input) | also flagged by | at /repo commit |',
       '|------|-----------------|--------------|-------------------------|---------------------------------------------------------|-----------------|-----------------|']
for r in rows:
    out.append('| ' + ' | '.join(r) + ' |')
hit = sum(1 for r in rows if r[3] == 'yes')
out.append('')
out.append('%d of %d seeded changes are reported by the check of the property they were written against.' % (hit, len(rows)))
text = '\n'.join(out)
p = V + '/DESIGN.md'
s = open(p).read()
if 'SEED-MATRIX-BEGIN' in s:
    s = re.sub(r'<!-- SEED-MATRIX-BEGIN -->.*?<!-- SEED-MATRIX-END -->', '<!-- SEED-MATRIX-BEGIN -->\n' + text + '\n<!-- SEED-MATRIX-END -->', s, flags=re.S)
else:
    s = s.replace('SEED-MATRIX-PLACEHOLDER', '<!-- SEED-MATRIX-BEGIN -->\n' + text + '\n<!-- SEED-MATRIX-END -->')
open(p, 'w').write(s)
print(text)
