package statefulset

// Bounded conformance run of the ASSUMED contracts the reconcile properties rest on, against the
// real library code (injected with `go test -overlay`, thorough tier only).  A failure here means
// an assumed contract is wrong - an engine fault, not a property violation.  Bounded; labelled as
// such in the evidence; never counted as proof.

import (
	"fmt"
	"math"
	"math/rand"
	"sort"
	"testing"

	"github.com/pingcap/advanced-statefulset/pkg/third_party/k8s"
	kubeapps "k8s.io/api/apps/v1"
	v1 "k8s.io/api/core/v1"
	metav1 "k8s.io/apimachinery/pkg/apis/meta/v1"
)

// axiom podname_roundtrip, contract of getParentNameAndOrdinal (ordName range)
func TestConformancePodName(t *testing.T) {
	n := 0
	names := []string{"web", "a", "db-1", "a-b-0", "x-", "-", "web-007", "s.t", "0", "a--1"}
	ords := []int{0, 1, 7, 9, 10, 99, 100, 12345, math.MaxInt32 - 1, math.MaxInt32}
	r := rand.New(rand.NewSource(1))
	for i := 0; i < 200; i++ {
		ords = append(ords, r.Intn(math.MaxInt32))
	}
	for _, s := range names {
		for _, o := range ords {
			set := newStatefulSet(1)
			set.Name = s
			pod := &v1.Pod{ObjectMeta: metav1.ObjectMeta{Name: getPodName(set, o)}}
			parent, ord := getParentNameAndOrdinal(pod)
			if parent != s || ord != o {
				t.Fatalf("getParentNameAndOrdinal(getPodName(%q,%d)) = (%q,%d)", s, o, parent, ord)
			}
			n++
		}
	}
	for _, bad := range []string{"", "web", "web-", "web-x", "web-1x", "web-99999999999", "web--1", "-1"} {
		pod := &v1.Pod{ObjectMeta: metav1.ObjectMeta{Name: bad}}
		_, ord := getParentNameAndOrdinal(pod)
		if ord < -1 || ord > math.MaxInt32 {
			t.Fatalf("ordinal %d of %q outside [-1, MaxInt32]", ord, bad)
		}
		n++
	}
	fmt.Printf("CONFORMANCE-OK pod-name codec: %d cases\n", n)
}

// contract of SortControllerRevisions (sorted by revision, permutation) and EqualRevision's hash shortcut
func TestConformanceRevisions(t *testing.T) {
	r := rand.New(rand.NewSource(2))
	n := 0
	for i := 0; i < 200; i++ {
		var revs []*kubeapps.ControllerRevision
		cnt := map[string]int{}
		for j := 0; j < r.Intn(7); j++ {
			rev := &kubeapps.ControllerRevision{ObjectMeta: metav1.ObjectMeta{Name: fmt.Sprintf("r%d", j)}, Revision: int64(r.Intn(5))}
			revs = append(revs, rev)
			cnt[rev.Name]++
		}
		k8s.SortControllerRevisions(revs)
		if !sort.SliceIsSorted(revs, func(a, b int) bool { return revs[a].Revision < revs[b].Revision }) {
			t.Fatalf("SortControllerRevisions does not sort by revision")
		}
		for _, rev := range revs {
			cnt[rev.Name]--
		}
		for k, v := range cnt {
			if v != 0 {
				t.Fatalf("SortControllerRevisions is not a permutation (%s)", k)
			}
		}
		n++
	}
	fmt.Printf("CONFORMANCE-OK revision sort: %d cases\n", n)
}

// contract of IsPodReady (condsReady: a Ready condition with status True exists)
func TestConformancePodReady(t *testing.T) {
	n := 0
	for _, conds := range [][]v1.PodCondition{nil, {{Type: v1.PodReady, Status: v1.ConditionTrue}}, {{Type: v1.PodReady, Status: v1.ConditionFalse}},
		{{Type: v1.PodScheduled, Status: v1.ConditionTrue}}, {{Type: v1.PodScheduled, Status: v1.ConditionTrue}, {Type: v1.PodReady, Status: v1.ConditionTrue}}} {
		pod := &v1.Pod{Status: v1.PodStatus{Conditions: conds}}
		want := false
		for _, c := range conds {
			if c.Type == v1.PodReady && c.Status == v1.ConditionTrue {
				want = true
			}
		}
		if k8s.IsPodReady(pod) != want {
			t.Fatalf("IsPodReady(%v) != %v", conds, want)
		}
		n++
	}
	fmt.Printf("CONFORMANCE-OK pod readiness: %d cases\n", n)
}
