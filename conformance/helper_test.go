package helper

// Bounded conformance run of the ASSUMED contracts of sets.Int32 and of encoding/json on []int32
// (thorough tier only; see sts_test.go in this directory for the conventions).

import (
	"encoding/json"
	"fmt"
	"math"
	"math/rand"
	"sort"
	"testing"

	"k8s.io/apimachinery/pkg/util/sets"
)

func TestConformanceSets(t *testing.T) {
	r := rand.New(rand.NewSource(3))
	n := 0
	for i := 0; i < 300; i++ {
		var a, b []int32
		for j := 0; j < r.Intn(8); j++ {
			a = append(a, int32(r.Intn(12)-3))
		}
		for j := 0; j < r.Intn(8); j++ {
			b = append(b, int32(r.Intn(12)-3))
		}
		sa, sb := sets.NewInt32(a...), sets.NewInt32(b...)
		l := sa.List()
		if len(l) != sa.Len() || !sort.SliceIsSorted(l, func(x, y int) bool { return l[x] < l[y] }) {
			t.Fatalf("List/Len contract")
		}
		for k := 1; k < len(l); k++ {
			if l[k-1] == l[k] {
				t.Fatalf("List has duplicates")
			}
		}
		u := sa.Union(sb)
		for x := int32(-4); x < 12; x++ {
			if u.Has(x) != (sa.Has(x) || sb.Has(x)) {
				t.Fatalf("Union contract at %d", x)
			}
		}
		if sa.Len() > 0 {
			x := l[0]
			sa.Delete(x)
			if sa.Has(x) || sa.Len() != len(l)-1 {
				t.Fatalf("Delete contract")
			}
			sa.Insert(x)
			if !sa.Has(x) || sa.Len() != len(l) {
				t.Fatalf("Insert contract")
			}
		}
		n++
	}
	fmt.Printf("CONFORMANCE-OK sets.Int32: %d cases\n", n)
}

func TestConformanceJSONInt32(t *testing.T) {
	r := rand.New(rand.NewSource(4))
	n := 0
	for i := 0; i < 300; i++ {
		s := sets.NewInt32()
		for j := 0; j < r.Intn(8); j++ {
			switch r.Intn(10) {
			case 0:
				s.Insert(math.MaxInt32)
			case 1:
				s.Insert(math.MinInt32)
			default:
				s.Insert(int32(r.Intn(2000) - 1000))
			}
		}
		b, err := json.Marshal(s.List())
		if err != nil {
			t.Fatalf("Marshal of []int32 failed: %v", err)
		}
		var back []int32
		if err := json.Unmarshal(b, &back); err != nil {
			t.Fatalf("Unmarshal of its own output failed: %v", err)
		}
		if !sets.NewInt32(back...).Equal(s) {
			t.Fatalf("round trip of %v gives %v", s.List(), back)
		}
		n++
	}
	for _, bad := range []string{"", "x", "[1,", "[1.5]", "[2147483648]", "{\"a\":1}", "[\"1\"]"} {
		var back []int32
		if err := json.Unmarshal([]byte(bad), &back); err == nil {
			t.Fatalf("Unmarshal(%q) into []int32 succeeded", bad)
		}
		n++
	}
	fmt.Printf("CONFORMANCE-OK encoding/json on []int32: %d cases\n", n)
}
